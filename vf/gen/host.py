"""Generator of R-HOST programs (SDK host programs as ASTs)."""
from __future__ import annotations

import copy
import random
from typing import List

SMALL = [0, 1, 2, 3, -1, -2, 5]
GATES = ["x", "h", "z", "x", "h", "y", "s", "t", "k"]


class Scope:
    def __init__(self):
        self.arrays = {}     # name -> {"len": n, "full": bool}
        self.futs = []       # defined measurement futures (names)
        self.regs = []       # register handles usable in this segment
        self.vars = {}       # loop var name -> list of values it takes
        self.elems = {}      # foreach element name -> array name
        self.qubits = []     # live qubit names

    def child(self):
        c = Scope()
        c.arrays = self.arrays          # arrays are global (static declarations)
        c.futs = list(self.futs)
        c.regs = list(self.regs)
        c.vars = dict(self.vars)
        c.elems = dict(self.elems)
        c.qubits = list(self.qubits)
        return c


class HostGen:
    def __init__(self, rng: random.Random, budget: int = 5, max_depth: int = 4, allow_regs: bool = True,
                 allow_until: bool = True, allow_quantum: bool = True):
        self.rng = rng
        self.budget = budget
        self.max_depth = max_depth
        self.n = 0
        self.allow_regs = allow_regs
        self.allow_until = allow_until
        self.allow_quantum = allow_quantum
        self.p_cond_regmeas = 0.04
        self.p_empty_body = 0.0      # bodies of loops / ifs / foreach / loop_until that contain nothing
        self.manual_registers = False
        self.all_mr = []
        self.templates = []       # template names for rotation numerators (C06)
        self.reg_operands = True   # may register handles be used as operands (they are segment-scoped)

    def name(self, p):
        self.n += 1
        return f"{p}{self.n}"

    # ---- operands ---------------------------------------------------------------------------------
    def idx_for(self, sc: Scope, length: int, allow_at: bool = True):
        r = self.rng
        cands = [v for v, vals in sc.vars.items() if vals and all(0 <= x < length for x in vals)]
        if cands and r.random() < 0.5:
            return {"var": r.choice(cands)}
        ro = [(a, j) for a, d in sc.arrays.items() if d.get("ro") for j, v in enumerate(d["vals"]) if 0 <= v < length]
        if ro and allow_at and r.random() < 0.2:
            a, j = r.choice(ro)
            return {"at": {"array": a, "idx": j}}
        return r.randrange(length)

    def read_value(self, sc: Scope, allow_int=True, cond=False):
        # cond=True: operand of a condition. The SDK loads those through Future.get_address_entry(), which does not
        # support a Future whose index is itself a Future (only the load/store command path does).
        r = self.rng
        opts = []
        full = [a for a, d in sc.arrays.items() if d["full"]]
        if full:
            opts += ["entry"] * 3
        if sc.futs:
            opts += ["fut"] * 2
        if sc.regs:
            opts += ["reg"]
        if sc.vars:
            opts += ["var"]
        if sc.elems:
            opts += ["elem"] * 2
        if allow_int or not opts:
            opts += ["int"] * (2 if opts else 1)
        k = r.choice(opts)
        if k == "int":
            return r.choice(SMALL)
        if k == "entry":
            a = r.choice(full)
            return {"kind": "entry", "array": a, "idx": self.idx_for(sc, sc.arrays[a]["len"], allow_at=not cond)}
        if k == "fut":
            return {"kind": "fut", "name": r.choice(sc.futs)}
        if k == "reg":
            return {"kind": "reg", "name": r.choice(sc.regs)}
        if k == "var":
            return {"kind": "var", "name": r.choice(list(sc.vars))}
        return {"kind": "fut", "name": r.choice(list(sc.elems))}

    def target_value(self, sc: Scope):
        r = self.rng
        opts = []
        full = [a for a, d in sc.arrays.items() if d["full"] and not d.get("ro")]
        if full:
            opts += ["entry"] * 3
        if sc.futs:
            opts += ["fut"]
        if sc.regs:
            opts += ["reg"]
        if sc.elems:
            opts += ["elem"]
        if not opts:
            return None
        k = r.choice(opts)
        if k == "entry":
            a = r.choice(full)
            return {"kind": "entry", "array": a, "idx": self.idx_for(sc, sc.arrays[a]["len"])}
        if k == "fut":
            return {"kind": "fut", "name": r.choice(sc.futs)}
        if k == "reg":
            return {"kind": "reg", "name": r.choice(sc.regs)}
        return {"kind": "fut", "name": r.choice(list(sc.elems))}

    # ---- statements -------------------------------------------------------------------------------
    def block(self, sc: Scope, depth: int, nst: int, top: bool = False) -> List[dict]:
        r = self.rng
        out: List[dict] = []
        mine: List[str] = []     # qubits allocated in this block
        self.unconditional = top
        if not top and self.p_empty_body and r.random() < self.p_empty_body:
            return out
        for _ in range(nst):
            self.unconditional = top
            kinds = ["add"] * 3 + ["if"] * 3 + ["array"]
            if self.allow_quantum:
                kinds += ["qalloc"] * 2 + ["gate"] * 3 + ["meas"] * 3 + ["cnot"]
            if self.templates and self.allow_quantum:
                kinds += ["rot"] * 4
            if depth < self.max_depth:
                kinds += ["loop"] * 2 + ["foreach"] + (["until"] if self.allow_until else [])
            if self.allow_regs and top:
                kinds += ["reg"]
            k = r.choice(kinds)
            st = getattr(self, "g_" + k)(sc, depth, mine, top)
            if st is not None:
                out += st if isinstance(st, list) else [st]
        # close qubits allocated here (nested blocks must not leak allocations into the next iteration)
        if not top:
            for q in list(mine):
                if q in sc.qubits:
                    out.append(self.meas_stmt(sc, q, inplace=False))
        return out

    def g_array(self, sc, depth, mine, top):
        r = self.rng
        nm = self.name("a")
        ln = r.choice([1, 2, 3, 4])
        if r.random() < 0.12:
            # read-only array of small indices: its entries are used as *indices* of other futures
            vals = [r.choice([0, 0, 1, 2]) for _ in range(ln)]
            sc.arrays[nm] = {"len": ln, "full": True, "ro": True, "vals": vals}
            return {"op": "array", "name": nm, "init": vals}
        if r.random() < 0.8:
            if r.random() < 0.3:
                init = [r.choice(SMALL)] * ln          # all-equal: triggers the loop optimisation
            else:
                init = [r.choice(SMALL) for _ in range(ln)]
            sc.arrays[nm] = {"len": ln, "full": True}
            return {"op": "array", "name": nm, "init": init}
        sc.arrays[nm] = {"len": ln, "full": False}
        return {"op": "array", "name": nm, "len": ln}

    def g_reg(self, sc, depth, mine, top):
        self.manual_registers = True
        nm = self.name("r")
        sc.regs.append(nm)
        return {"op": "reg", "name": nm, "init": self.rng.choice(SMALL)}

    def g_qalloc(self, sc, depth, mine, top):
        if len(sc.qubits) >= self.budget:
            return None
        q = self.name("q")
        sc.qubits.append(q)
        mine.append(q)
        out = [{"op": "qalloc", "q": q}]
        if self.rng.random() < 0.7:
            out.append({"op": "gate", "g": self.rng.choice(GATES), "q": q})
        return out

    def g_gate(self, sc, depth, mine, top):
        if not sc.qubits:
            return self.g_qalloc(sc, depth, mine, top)
        return {"op": "gate", "g": self.rng.choice(GATES), "q": self.rng.choice(sc.qubits)}

    def g_rot(self, sc, depth, mine, top):
        r = self.rng
        pre = []
        if not sc.qubits:
            pre = self.g_qalloc(sc, depth, mine, top)
            if pre is None:
                return None
        q = r.choice(sc.qubits)
        n = {"tmpl": r.choice(self.templates)} if r.random() < 0.7 else r.choice([0, 1, 4, 8, 16, 31, 255])
        return pre + [{"op": "rot", "axis": r.choice("xyz"), "q": q, "n": n, "d": r.choice([0, 1, 2, 3, 4, 4, 4])}]

    def g_cnot(self, sc, depth, mine, top):
        if len(sc.qubits) < 2:
            return None
        c, t = self.rng.sample(sc.qubits, 2)
        return {"op": "cnot", "c": c, "t": t}

    def meas_stmt(self, sc, q, inplace):
        r = self.rng
        # a register measurement that is not executed (untaken branch, zero iterations) makes the closing ret_reg
        # fault on the controller (known finding): keep those rare so that programs stay comparable
        opts = ["new"] * 3 + (["reg"] if (self.unconditional or r.random() < self.p_cond_regmeas) else [])
        arrs = [a for a, d in sc.arrays.items() if not d.get("ro")]
        if arrs:
            opts += ["entry"] * 2
        k = r.choice(opts)
        if k == "new":
            f = self.name("m")
            sc.arrays[f] = {"len": 1, "full": False}
            to = {"kind": "new", "name": f}
            sc.futs.append(f)
        elif k == "reg" and self.all_mr and self.unconditional and r.random() < 0.3:
            # measure again into a RegFuture handle that already exists (possibly from an earlier flush segment)
            f = r.choice(self.all_mr)
            to = {"kind": "reg", "name": f, "reuse": True}
            if self.reg_operands and f not in sc.regs:
                sc.regs.append(f)
        elif k == "reg":
            f = self.name("mr")
            to = {"kind": "reg", "name": f}
            if self.unconditional:
                self.all_mr.append(f)
            if self.reg_operands:
                sc.regs.append(f)
        else:
            a = r.choice(arrs)
            to = {"kind": "entry", "array": a, "idx": self.idx_for(sc, sc.arrays[a]["len"])}
        if not inplace and q in sc.qubits:
            sc.qubits.remove(q)
        return {"op": "meas", "q": q, "to": to, "inplace": inplace}

    def g_meas(self, sc, depth, mine, top):
        # only qubits allocated in this very block may be measured destructively here
        own = list(sc.qubits) if top else [q for q in mine if q in sc.qubits]
        if not own:
            if sc.qubits and self.rng.random() < 0.5:
                return self.meas_stmt(sc, self.rng.choice(sc.qubits), inplace=True)
            return None
        q = self.rng.choice(own)
        return self.meas_stmt(sc, q, inplace=self.rng.random() < 0.2)

    def g_add(self, sc, depth, mine, top):
        t = self.target_value(sc)
        if t is None:
            return self.g_array(sc, depth, mine, top)
        mod = self.rng.choice([None, None, 2, 3, 5, 1])
        return {"op": "add", "target": t, "other": self.read_value(sc), "mod": mod}

    def g_if(self, sc, depth, mine, top):
        r = self.rng
        cond = r.choice(["eq", "ne", "lt", "ge", "ez", "nz"])
        form = r.choice(["ctx", "cb"])
        a = self.read_value(sc, allow_int=(form == "cb" and cond not in ("ez", "nz") and r.random() < 0.2), cond=True)
        if isinstance(a, int) and form == "ctx":
            form = "cb"
        if isinstance(a, int) and cond in ("ez", "nz"):
            cond = "eq"
        b = None if cond in ("ez", "nz") else self.read_value(sc, cond=True)
        body = self.block(self.body_scope(sc), depth + 1, r.randrange(1, 4))
        return {"op": "if", "cond": cond, "a": a, "b": b, "form": form, "body": body}

    def body_scope(self, sc):
        # measurement futures / registers defined inside a conditional or loop body are not surely defined
        # afterwards: the child scope is discarded (arrays stay: declarations are static)
        return sc.child()

    def g_loop(self, sc, depth, mine, top):
        r = self.rng
        down = r.random() < 0.2       # counting down (negative step), the index staying >= 0
        start = r.choice([3, 4, 5, 6, 7]) if down else r.choice([0, 0, 1, 2])
        step = -r.choice([1, 2, 2, 3]) if down else r.choice([1, 1, 2, 3])
        count = r.choice([0, 1, 2, 3, 4])
        if down:
            count = min(count, start // -step + 1)
        var = self.name("i")
        c = self.body_scope(sc)
        c.vars[var] = [start + step * j for j in range(count)]
        body = self.block(c, depth + 1, r.randrange(1, 4))
        stop = start + step * count
        if r.random() < (0.5 if down else 0.3):
            # a stop that the index never hits exactly (step does not divide the range), or an empty range (stop on the wrong side)
            if down:
                stop = stop + r.randrange(-step) if count else start + r.choice([0, 1, 3])
            else:
                stop = stop - r.randrange(step) if count else start - r.choice([0, 1, 3])
        st = {"op": "loop", "var": var, "start": start, "stop": stop, "step": step,
              "form": r.choice(["ctx", "cb"]), "body": body}
        if top and not self.manual_registers and r.random() < 0.25:
            st["reg"] = r.choice(["R0", "R0", "R1", "R5", "R15"])   # explicit loop register (nothing else holds registers here)
        return st

    def g_foreach(self, sc, depth, mine, top):
        r = self.rng
        full = [a for a, d in sc.arrays.items() if d["full"] and not d.get("ro")]
        if not full:
            return self.g_array(sc, depth, mine, top)
        a = r.choice(full)
        v = self.name("e")
        c = self.body_scope(sc)
        c.elems[v] = a
        iv = None
        if r.random() < 0.5:
            iv = self.name("i")
            c.vars[iv] = list(range(sc.arrays[a]["len"]))
        else:
            c.vars["_i_" + v] = list(range(sc.arrays[a]["len"]))
            # the hidden index is not usable by the program
            hidden = "_i_" + v
            c.vars.pop(hidden)
        body = self.block(c, depth + 1, r.randrange(1, 4))
        return {"op": "foreach", "array": a, "var": v, "idxvar": iv, "body": body}

    def g_until(self, sc, depth, mine, top):
        r = self.rng
        var = self.name("w")
        c = self.body_scope(sc)
        mx = r.choice([1, 2, 3, 4, 6])
        full0 = [a for a, d in sc.arrays.items() if d["full"] and not d.get("ro")]
        empty = bool(full0) and bool(self.p_empty_body) and r.random() < 2 * self.p_empty_body
        body = [] if empty else self.block(c, depth + 1, r.randrange(0, 3))
        form = r.random()
        if not empty and c.regs and form < 0.25:
            # the exit condition reads a register handle (new_register() / a register outcome) the body counts down
            nm = r.choice(c.regs)
            body += [{"op": "add", "target": {"kind": "reg", "name": nm}, "other": r.choice([-1, -1, -2, 1]), "mod": None}]
            exit_ = {"val": {"kind": "reg", "name": nm}, "atmost": r.choice([0, 1, -1, 2])}
        elif not empty and full0 and form < 0.35:
            # ... or a loop index: this loop's own try counter, or the index of an enclosing loop (the body does something
            # that is emitted: the SDK emits no loop at all for a body that emits nothing)
            a = r.choice(full0)
            body += [{"op": "add", "target": {"kind": "entry", "array": a, "idx": r.randrange(sc.arrays[a]["len"])},
                      "other": r.choice([-1, 1, 2]), "mod": None}]
            exit_ = {"val": {"kind": "var", "name": r.choice([var] + list(sc.vars))}, "atmost": r.choice([0, 1, -1, 2])}
        elif not empty and self.allow_quantum and len(c.qubits) < self.budget and r.random() < 0.7:
            # the documented pattern: measure a fresh qubit, exit when the outcome is at most 0
            q = self.name("q")
            f = self.name("m")
            c.arrays[f] = {"len": 1, "full": False}
            body += [{"op": "qalloc", "q": q}, {"op": "gate", "g": r.choice(["h", "h", "x"]), "q": q},
                     {"op": "meas", "q": q, "to": {"kind": "new", "name": f}, "inplace": False}]
            exit_ = {"val": {"kind": "fut", "name": f}, "atmost": r.choice([0, 0, 1, -1])}
        else:
            full = [a for a, d in sc.arrays.items() if d["full"] and not d.get("ro")]
            if not full:
                return None
            a = r.choice(full)
            ent = {"kind": "entry", "array": a, "idx": r.randrange(sc.arrays[a]["len"])}
            if not empty:      # (empty: nothing at all in the body - the exit value never changes, the loop exits at once or runs out of tries)
                body += [{"op": "add", "target": ent, "other": r.choice([-1, -1, -2, 1]), "mod": None}]
            exit_ = {"val": copy.deepcopy(ent), "atmost": r.choice([0, 1, -1, 2])}
        st = {"op": "until", "max": mx, "var": var, "body": body, "exit": exit_}
        full = [a for a, d in sc.arrays.items() if d["full"] and not d.get("ro")]
        if full and r.random() < 0.35 and not empty:
            # (no clean-up between the tries of a loop that tries nothing: the SDK emits no loop at all for an empty body)
            a = r.choice(full)
            st["cleanup"] = [{"op": "add", "target": {"kind": "entry", "array": a, "idx": r.randrange(sc.arrays[a]["len"])},
                              "other": r.choice([1, 2, {"kind": "var", "name": var}]), "mod": r.choice([None, 7])}]
        return st

    # ---- whole program ----------------------------------------------------------------------------
    def program(self, n_top: int, p_flush: float = 0.3) -> List[dict]:
        for _ in range(50):
            prog = self._program(n_top, p_flush)
            if _well_formed(prog):
                return prog
        return [{"op": "array", "name": self.name("a"), "init": [1]}]

    def _program(self, n_top: int, p_flush: float = 0.3) -> List[dict]:
        sc = Scope()
        prog: List[dict] = []
        # start with an initialised array so that there is something to compute with
        prog.append(self.g_array(sc, 0, [], True))
        if not sc.arrays[prog[0]["name"]]["full"]:
            prog.append({"op": "array", "name": self.name("a"), "init": [self.rng.choice(SMALL) for _ in range(3)]})
            sc.arrays[prog[-1]["name"]] = {"len": 3, "full": True}
        for _ in range(n_top):
            prog += self.block(sc, 1, 1, top=True)
            if self.rng.random() < p_flush:
                prog.append({"op": "flush"})
                sc.regs = []      # registers are not kept across flushes (see known finding)
        return prog


def _well_formed(prog) -> bool:
    """Every referenced array / future / register handle is created by a statement that is part of the program (a generator
    branch that gives up may leave names behind in the scope)."""
    declared = set()
    regs = set()
    quts = set()

    def decl(stmts):
        for st in stmts:
            if st["op"] == "array":
                declared.add(st["name"])
            elif st["op"] == "reg":
                regs.add(st["name"])
            elif st["op"] == "qalloc":
                quts.add(st["q"])
            elif st["op"] == "meas":
                if st["to"]["kind"] == "new":
                    declared.add(st["to"]["name"])
                elif st["to"]["kind"] == "reg" and not st["to"].get("reuse"):
                    regs.add(st["to"]["name"])
            elif st["op"] == "foreach":
                declared.add(st["var"])
            if "body" in st:
                decl(st["body"])
            if st.get("cleanup"):
                decl(st["cleanup"])
    decl(prog)

    def ok_val(v):
        if not isinstance(v, dict):
            return True
        if v.get("kind") == "entry":
            if v["array"] not in declared:
                return False
            i = v["idx"]
            return not (isinstance(i, dict) and "at" in i and i["at"]["array"] not in declared)
        if v.get("kind") == "fut":
            return v["name"] in declared
        if v.get("kind") == "reg":
            return v["name"] in regs
        return True

    created = set()      # register handles in build order: measuring again into a handle needs the handle to exist already

    def walk(stmts):
        for st in stmts:
            if st["op"] == "meas" and st["to"]["kind"] == "reg":
                if st["to"].get("reuse"):
                    if st["to"]["name"] not in created:
                        return False
                else:
                    created.add(st["to"]["name"])
            for k in ("target", "other", "a", "b"):
                if k in st and st[k] is not None and not ok_val(st[k]):
                    return False
            if st["op"] == "meas" and st["to"]["kind"] == "entry" and not ok_val(st["to"]):
                return False
            if st["op"] == "until" and not ok_val(st["exit"]["val"]):
                return False
            if st["op"] == "foreach" and st["array"] not in declared:
                return False
            for k in ("q", "c", "t"):
                if k in st and st[k] not in quts:
                    return False
            if "body" in st and not walk(st["body"]):
                return False
            if st.get("cleanup") and not walk(st["cleanup"]):
                return False
        return True
    return walk(prog)
