"""Generators of classical / array / allocation NetQASM programs (instruction level)."""
from __future__ import annotations

import random
from typing import List

BANK_POOL = ["R", "R", "R", "R", "C", "Q", "M"]


def reg_pool(rng: random.Random, k: int = 6) -> List[list]:
    pool = []
    while len(pool) < k:
        r = [rng.choice(BANK_POOL), rng.choice([0, 1, 2, 3, 15, rng.randrange(16)])]
        if r not in pool:
            pool.append(r)
    return pool


SMALL = [0, 1, 2, 3, -1, -2, 5, 7]
WIDE = [0, 1, -1, 2**31 - 1, -(2**31), 100, -100, 2**16]


def gen_program(rng: random.Random, unit_size: int, max_len: int = 30, arrays=(0, 1, 2), first: bool = True,
                waits: bool = True) -> list:
    """A random instruction-level program: a seeding prelude (so most programs run >= 10 steps) followed by a
    random body with arbitrary jump targets in [0, len]."""
    pool = reg_pool(rng)
    prog: List[list] = []

    def R():
        return rng.choice(pool)

    def small():
        return rng.choice(SMALL) if rng.random() < 0.85 else rng.choice(WIDE)

    # prelude
    if first or rng.random() < 0.5:
        for r in pool:
            if rng.random() < 0.85:
                prog.append(["set", [r, small()]])
        for a in arrays:
            if rng.random() < 0.8:
                ln = rng.choice([0, 1, 2, 3, 4, 8])
                lr = R()
                prog.append(["set", [lr, ln]])
                prog.append(["array", [lr, a]])
                for i in range(ln):
                    if rng.random() < 0.6:
                        ir, vr = R(), R()
                        if ir == vr:
                            continue
                        prog.append(["set", [ir, i]])
                        prog.append(["set", [vr, small()]])
                        prog.append(["store", [vr, [a, ir]]])
    n_body = rng.randrange(3, max(4, max_len - len(prog))) if len(prog) < max_len - 3 else 3
    body_start = len(prog)
    total = body_start + n_body

    def target(i):
        if rng.random() < 0.04:
            return total + rng.choice([1, 2, 7, 1000, 2**31 - 1 - total])   # past the end: the subroutine simply ends
        if rng.random() < 0.7:
            return rng.randrange(min(i + 1, total), total + 1)
        return rng.randrange(0, total + 1)

    def entry():
        return [rng.choice(list(arrays) + [7]), R()]

    kinds = (["set"] * 4 + ["add", "sub", "addm", "subm"] * 2 + ["load", "store"] * 3 + ["undef", "lea", "array"] +
             ["jmp"] + ["bez", "bnz", "beq", "bne", "blt", "bge"] * 2 + ["ret_reg", "ret_arr"] * 2 +
             ["qalloc", "qfree"] * 2 + (["wait_all", "wait_any", "wait_single"] if waits else []))
    for j in range(n_body):
        i = body_start + j
        m = rng.choice(kinds)
        if m == "set":
            prog.append([m, [R(), small()]])
        elif m in ("add", "sub"):
            prog.append([m, [R(), R(), R()]])
        elif m in ("addm", "subm"):
            prog.append([m, [R(), R(), R(), R()]])
        elif m in ("load", "store"):
            prog.append([m, [R(), entry()]])
        elif m in ("undef", "wait_single"):
            prog.append([m, [entry()]])
        elif m in ("lea", "array"):
            prog.append([m, [R(), rng.choice(list(arrays) + [7])]])
        elif m == "jmp":
            prog.append([m, [target(i)]])
        elif m in ("bez", "bnz"):
            prog.append([m, [R(), target(i)]])
        elif m in ("beq", "bne", "blt", "bge"):
            prog.append([m, [R(), R(), target(i)]])
        elif m == "ret_reg":
            prog.append([m, [R()]])
        elif m == "ret_arr":
            prog.append([m, [rng.choice(list(arrays) + [7])]])
        elif m in ("qalloc", "qfree"):
            prog.append([m, [R()]])
        elif m in ("wait_all", "wait_any"):
            prog.append([m, [[rng.choice(list(arrays)), R(), R()]]])
    return prog


def _rand_instr(rng, pool, arrays, i, total, waits=True):
    def R():
        return rng.choice(pool)

    def small():
        return rng.choice(SMALL) if rng.random() < 0.85 else rng.choice(WIDE)

    def target():
        if rng.random() < 0.04:
            return total + rng.choice([1, 2, 7, 1000, 2**31 - 1 - total])   # past the end: the subroutine simply ends
        if rng.random() < 0.75:
            return rng.randrange(min(i + 1, total), total + 1)
        return rng.randrange(0, total + 1)

    def entry():
        return [rng.choice(list(arrays) + ([7] if rng.random() < 0.1 else [])), R()]

    kinds = (["set"] * 3 + ["add", "sub", "addm", "subm"] * 2 + ["load", "store"] * 3 + ["undef", "lea", "array"] +
             ["jmp"] + ["bez", "bnz", "beq", "bne", "blt", "bge"] * 3 + ["ret_reg", "ret_arr"] * 2 +
             ["qalloc", "qfree"] * 2 + (["wait_all", "wait_any", "wait_single"] if waits else []))
    m = rng.choice(kinds)
    if m == "set":
        return [m, [R(), small()]]
    if m in ("add", "sub"):
        return [m, [R(), R(), R()]]
    if m in ("addm", "subm"):
        return [m, [R(), R(), R(), R()]]
    if m in ("load", "store"):
        return [m, [R(), entry()]]
    if m in ("undef", "wait_single"):
        return [m, [entry()]]
    if m in ("lea", "array"):
        return [m, [R(), rng.choice(list(arrays) + [7])]]
    if m == "jmp":
        return [m, [target()]]
    if m in ("bez", "bnz"):
        return [m, [R(), target()]]
    if m in ("beq", "bne", "blt", "bge"):
        return [m, [R(), R(), target()]]
    if m == "ret_reg":
        return [m, [R()]]
    if m == "ret_arr":
        return [m, [rng.choice(list(arrays) + ([7] if rng.random() < 0.1 else []))]]
    if m in ("qalloc", "qfree"):
        return [m, [R()]]
    return [m, [[rng.choice(list(arrays)), R(), R()]]]


def gen_program_guided(rng: random.Random, state, n: int, arrays=(0, 1, 2), p_fault: float = 0.03,
                       step_bound: int = 300, waits: bool = True) -> list:
    """Generate-by-execution: the program is filled in lazily along the path the *reference* interpreter takes
    from `state` (a copy is used); a freshly generated instruction is (with probability 1 - p_fault) one that does
    not fault / block / leave the domain in the current reference state, so programs run long and reach loops,
    array traffic and allocation churn; unreached slots are filled at random afterwards."""
    import copy

    from vf.ref import interp as ri

    st = copy.deepcopy(state)
    pool = reg_pool(rng)
    prog: List = [None] * n
    it = ri.Interp(st, step_bound)
    pc, steps = 0, 0
    while pc < n and steps < step_bound:
        steps += 1
        if prog[pc] is None:
            allow_fault = rng.random() < p_fault
            chosen = None
            for _ in range(12):
                cand = _rand_instr(rng, pool, arrays, pc, n, waits)
                if allow_fault:
                    chosen = cand
                    break
                trial = ri.Interp(copy.deepcopy(st), 10)
                try:
                    trial.step([cand] * (pc + 1), pc)
                    chosen = cand
                    break
                except (ri.Fault, ri.Blocked, ri.OutOfDomain):
                    continue
            if chosen is None:
                chosen = ["set", [rng.choice(pool), rng.choice(SMALL)]]
            prog[pc] = chosen
        try:
            pc = it.step(prog, pc)
        except (ri.Fault, ri.Blocked, ri.OutOfDomain):
            break
    for i in range(n):
        if prog[i] is None:
            prog[i] = _rand_instr(rng, pool, arrays, i, n, waits)
    return prog


def gen_return_twice(rng: random.Random) -> list:
    """array; stores; ret_arr; then some entries undefined (undef) or the array re-declared with the same length; ret_arr
    again: what the host sees after the second return must be the second content."""
    a = rng.choice([0, 1, 2])
    ln = rng.choice([1, 2, 3, 5])
    prog = [["set", [["R", 0], ln]], ["array", [["R", 0], a]]]
    for i in range(ln):
        if rng.random() < 0.8:
            prog += [["set", [["R", 1], i]], ["set", [["R", 2], rng.choice(SMALL)]], ["store", [["R", 2], [a, ["R", 1]]]]]
    prog.append(["ret_arr", [a]])
    how = rng.choice(["undef", "redeclare", "overwrite"])
    if how == "undef":
        for i in range(ln):
            if rng.random() < 0.6:
                prog += [["set", [["R", 1], i]], ["undef", [[a, ["R", 1]]]]]
    elif how == "redeclare":
        prog += [["set", [["R", 0], ln]], ["array", [["R", 0], a]]]
        if rng.random() < 0.5:
            prog += [["set", [["R", 1], 0]], ["set", [["R", 2], 9]], ["store", [["R", 2], [a, ["R", 1]]]]]
    else:
        prog += [["set", [["R", 1], rng.randrange(ln)]], ["set", [["R", 2], 77]], ["store", [["R", 2], [a, ["R", 1]]]]]
    prog.append(["ret_arr", [a]])
    return prog


def gen_big_accumulate(rng: random.Random) -> list:
    """Values that GROW by arithmetic (immediates are 32-bit, registers of the simulator are not): a register doubled 30-120 times
    (now and then another accumulated register added or subtracted), then addm / subm of it with small and large moduli, both
    operand orders, and the results returned."""
    start = rng.choice([1, 3, 7, 933, 2**31 - 1, -(2**31), rng.randrange(-2**31, 2**31)]) or 1
    prog = [["set", [["R", 0], start]], ["set", [["R", 7], rng.choice([1, 5, 2**31 - 1, -3])]]]
    for _ in range(rng.randrange(30, 121)):
        r = rng.random()
        if r < 0.8:
            prog.append(["add", [["R", 0], ["R", 0], ["R", 0]]])
        elif r < 0.9:
            prog.append(["add", [["R", 7], ["R", 7], ["R", 0]]])
        else:
            prog.append(["sub", [["R", 0], ["R", 0], ["R", 7]]])
    mod = rng.choice([2, 3, 7, 10, 1000, 65537, 2**31 - 1, rng.randrange(2, 2**31)])
    prog += [["set", [["R", 1], mod]], ["set", [["R", 2], rng.choice([0, 1, 5, 2**31 - 1, -7])]],
             ["addm", [["R", 3], ["R", 0], ["R", 2], ["R", 1]]], ["subm", [["R", 4], ["R", 2], ["R", 0], ["R", 1]]],
             ["subm", [["R", 5], ["R", 0], ["R", 2], ["R", 1]]], ["addm", [["R", 6], ["R", 0], ["R", 7], ["R", 1]]],
             ["sub", [["R", 8], ["R", 7], ["R", 0]]], ["add", [["R", 9], ["R", 0], ["R", 2]]]]
    for i in (3, 4, 5, 6):
        prog.append(["ret_reg", [["R", i]]])
    return prog
