"""Generator of vanilla-flavour subroutines "of the kind the SDK can emit": every gate is immediately preceded by
the `set` (or, for the known-finding cases, `load`) of its Q registers; loops, conditionals on measurement
outcomes and end labels surround the gates."""
from __future__ import annotations

import random
from typing import List

SINGLE = ["x", "y", "z", "h", "k", "s", "t"]


def gen_vanilla(rng: random.Random, nq: int, n_blocks: int, use_load: bool = False):
    """Returns (program, info). Program uses Q0/Q1 for gate operands (as the SDK does), R/C registers for control,
    M registers for outcomes, array @0 holds qubit ids (for the `load` variant)."""
    prog: List[list] = []
    # prelude: allocate and initialise qubits 0..nq-1, put them in some state
    for v in range(nq):
        prog += [["set", [["Q", 0], v]], ["qalloc", [["Q", 0]]], ["init", [["Q", 0]]]]
        if rng.random() < 0.7:
            prog += [["set", [["Q", 0], v]], [rng.choice(["h", "x", "k"]), [["Q", 0]]]]
        if rng.random() < 0.5:
            prog += [["set", [["Q", 0], v]], ["rot_" + rng.choice("xyz"), [["Q", 0], rng.randrange(32), 4]]]
    if use_load:
        prog += [["set", [["R", 5], nq]], ["array", [["R", 5], 0]]]
        for v in range(nq):
            prog += [["set", [["R", 5], v]], ["set", [["R", 6], v]], ["store", [["R", 6], [0, ["R", 5]]]]]
    pending_labels = []  # (instruction index of the branch, operand position) to patch with a later target

    def put_q(reg_idx, v):
        if use_load and rng.random() < 0.5:
            prog.append(["set", [["R", 7], v]])
            prog.append(["load", [["Q", reg_idx], [0, ["R", 7]]]])
            return True
        prog.append(["set", [["Q", reg_idx], v]])
        return False

    loaded_two_qubit = False

    def gate():
        nonlocal loaded_two_qubit
        k = rng.random()
        if k < 0.45 or nq < 2:
            v = rng.randrange(nq)
            put_q(0, v)
            if rng.random() < 0.6:
                prog.append([rng.choice(SINGLE), [["Q", 0]]])
            else:
                prog.append(["rot_" + rng.choice("xyz"), [["Q", 0], rng.randrange(256), rng.choice([0, 1, 2, 3, 4, 4, 5])]])
        else:
            a, b = rng.sample(range(nq), 2)
            l1 = put_q(0, a)
            l2 = put_q(1, b)
            loaded_two_qubit = loaded_two_qubit or l1 or l2
            prog.append([rng.choice(["cnot", "cphase"]), [["Q", 0], ["Q", 1]]])

    def block(depth):
        for _ in range(rng.randrange(1, 4)):
            k = rng.random()
            if k < 0.5 or depth >= 2:
                gate()
            elif k < 0.7:
                # counted loop around gates
                cnt = rng.choice([0, 1, 2, 3])
                r = ["R", depth]
                c = ["C", depth]
                prog.append(["set", [r, 0]])
                prog.append(["set", [c, cnt]])
                head = len(prog)
                prog.append(["beq", [r, c, None]])
                block(depth + 1)
                prog.append(["set", [["C", 10], 1]])
                prog.append(["add", [r, r, ["C", 10]]])
                prog.append(["jmp", [head]])
                prog[head][1][2] = len(prog)
            elif k < 0.9:
                # conditional on a measurement outcome (in-place measurement keeps the qubit)
                v = rng.randrange(nq)
                m = ["M", rng.randrange(4)]
                prog.append(["set", [["Q", 0], v]])
                prog.append(["meas", [["Q", 0], m]])
                br = len(prog)
                prog.append([rng.choice(["bez", "bnz"]), [m, None]])
                block(depth + 1)
                prog[br][1][1] = len(prog)
            else:
                prog.append(["set", [["R", 9], rng.randrange(5)]])
                prog.append(["set", [["R", 8], rng.randrange(5)]])
                br = len(prog)
                prog.append([rng.choice(["blt", "bge", "beq", "bne"]), [["R", 9], ["R", 8], None]])
                block(depth + 1)
                prog[br][1][2] = len(prog)

    for _ in range(n_blocks):
        block(0)
    # sometimes end with a jump / branch to one past the end (an end label) guarding a final gate
    if rng.random() < 0.5:
        v = rng.randrange(nq)
        m = ["M", 5]
        prog.append(["set", [["Q", 0], v]])
        prog.append(["meas", [["Q", 0], m]])
        br = len(prog)
        prog.append([rng.choice(["bez", "bnz"]), [m, None]])
        gate()
        prog[br][1][1] = len(prog)
    prog_len = len(prog)
    return prog, {"loaded_two_qubit": loaded_two_qubit, "len": prog_len}
