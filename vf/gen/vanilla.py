"""Generator of vanilla-flavour subroutines "of the kind the SDK can emit": every gate is immediately preceded by
the `set` (or, for the known-finding cases, `load`) of its Q registers; loops, conditionals on measurement
outcomes and end labels surround the gates."""
from __future__ import annotations

import random
from typing import List

SINGLE = ["x", "y", "z", "h", "k", "s", "t"]


def gen_vanilla(rng: random.Random, nq: int, n_blocks: int, use_load: bool = False):
    """Returns (program, info). Program uses Q0/Q1 for gate operands (as the SDK does), R/C registers for control,
    M registers for outcomes, array @0 holds qubit ids (for the `load` variant)."""
    prog: List[list] = []
    if rng.random() < 0.15:
        prog.append(["set", [["C", 15], rng.choice([5, 0, -3])]])      # the program itself uses register C15
    # prelude: allocate and initialise qubits 0..nq-1, put them in some state
    for v in range(nq):
        prog += [["set", [["Q", 0], v]], ["qalloc", [["Q", 0]]], ["init", [["Q", 0]]]]
        if rng.random() < 0.7:
            prog += [["set", [["Q", 0], v]], [rng.choice(["h", "x", "k"]), [["Q", 0]]]]
        if rng.random() < 0.5:
            prog += [["set", [["Q", 0], v]], ["rot_" + rng.choice("xyz"), [["Q", 0], rng.randrange(32), 4]]]
    if use_load:
        prog += [["set", [["R", 5], nq]], ["array", [["R", 5], 0]]]
        for v in range(nq):
            prog += [["set", [["R", 5], v]], ["set", [["R", 6], v]], ["store", [["R", 6], [0, ["R", 5]]]]]
    pending_labels = []  # (instruction index of the branch, operand position) to patch with a later target

    def put_q(reg_idx, v):
        if use_load and rng.random() < 0.5:
            prog.append(["set", [["R", 7], v]])
            prog.append(["load", [["Q", reg_idx], [0, ["R", 7]]]])
            return True
        prog.append(["set", [["Q", reg_idx], v]])
        return False

    loaded_two_qubit = False

    def gate():
        nonlocal loaded_two_qubit
        k = rng.random()
        if k < 0.45 or nq < 2:
            v = rng.randrange(nq)
            put_q(0, v)
            if rng.random() < 0.6:
                prog.append([rng.choice(SINGLE), [["Q", 0]]])
            else:
                prog.append(["rot_" + rng.choice("xyz"), [["Q", 0], rng.randrange(256), rng.choice([0, 1, 2, 3, 4, 4, 5])]])
        else:
            a, b = rng.sample(range(nq), 2)
            l1 = put_q(0, a)
            l2 = put_q(1, b)
            loaded_two_qubit = loaded_two_qubit or l1 or l2
            prog.append([rng.choice(["cnot", "cphase"]), [["Q", 0], ["Q", 1]]])

    def block(depth):
        for _ in range(rng.randrange(1, 4)):
            k = rng.random()
            if k < 0.5 or depth >= 2:
                gate()
            elif k < 0.7:
                # counted loop around gates
                cnt = rng.choice([0, 1, 2, 3])
                r = ["R", depth]
                c = ["C", depth]
                prog.append(["set", [r, 0]])
                prog.append(["set", [c, cnt]])
                head = len(prog)
                prog.append(["beq", [r, c, None]])
                block(depth + 1)
                prog.append(["set", [["C", 10], 1]])
                prog.append(["add", [r, r, ["C", 10]]])
                prog.append(["jmp", [head]])
                prog[head][1][2] = len(prog)
            elif k < 0.9:
                # conditional on a measurement outcome (in-place measurement keeps the qubit)
                v = rng.randrange(nq)
                m = ["M", rng.randrange(4)]
                prog.append(["set", [["Q", 0], v]])
                prog.append(["meas", [["Q", 0], m]])
                br = len(prog)
                prog.append([rng.choice(["bez", "bnz"]), [m, None]])
                block(depth + 1)
                prog[br][1][1] = len(prog)
            else:
                prog.append(["set", [["R", 9], rng.randrange(5)]])
                prog.append(["set", [["R", 8], rng.randrange(5)]])
                br = len(prog)
                prog.append([rng.choice(["blt", "bge", "beq", "bne"]), [["R", 9], ["R", 8], None]])
                block(depth + 1)
                prog[br][1][2] = len(prog)

    for _ in range(n_blocks):
        block(0)
    # sometimes end with a jump / branch to one past the end (an end label) guarding a final gate
    if rng.random() < 0.5:
        v = rng.randrange(nq)
        m = ["M", 5]
        prog.append(["set", [["Q", 0], v]])
        prog.append(["meas", [["Q", 0], m]])
        br = len(prog)
        prog.append([rng.choice(["bez", "bnz"]), [m, None]])
        gate()
        prog[br][1][1] = len(prog)
    # sometimes a qubit is given back right after a two-qubit gate it took part in (`q1.cnot(q2); q1.free()`): what the other
    # qubits hold - the electron included - is what the gate left there
    if nq >= 2 and not use_load and rng.random() < 0.25:
        a, b = rng.sample(range(nq), 2)
        prog += [["set", [["Q", 0], a]], ["set", [["Q", 1], b]], [rng.choice(["cnot", "cphase"]), [["Q", 0], ["Q", 1]]]]
        which = rng.choice([0, 0, 1])
        if rng.random() < 0.6:
            prog.append(["set", [["Q", which], [a, b][which]]])      # (the SDK writes the address again)
        prog.append(["qfree", [["Q", which]]])
        rest = [v for v in range(nq) if v != [a, b][which]]
        if rng.random() < 0.5:
            prog += [["set", [["Q", 0], rng.choice(rest)]], [rng.choice(SINGLE), [["Q", 0]]]]
    prog_len = len(prog)
    return prog, {"loaded_two_qubit": loaded_two_qubit, "len": prog_len}



def gen_vanilla_heads(rng: random.Random, nq: int):
    """Programs in which a branch or jump targets a GATE itself (loop heads and forward branches), the gate's operand
    registers being set before the branch; several operand registers (Q0..Q5) are in use, some only later in the text,
    some pointing elsewhere on the path not taken.  Every gate still executes with registers that were written by `set`
    on every path reaching it and that hold the same qubit on each of them (so a flow-insensitive reading of the text
    agrees with the run)."""
    prog: List[list] = []
    for v in range(nq):
        prog += [["set", [["Q", 0], v]], ["qalloc", [["Q", 0]]], ["init", [["Q", 0]]], ["set", [["Q", 0], v]],
                 [rng.choice(["h", "x", "k"]), [["Q", 0]]]]

    def two(ra, rb, a=None, b=None, setregs=True):
        if a is None:
            a, b = rng.sample(range(nq), 2)
        out = []
        if setregs:
            out += [["set", [["Q", ra], a]], ["set", [["Q", rb], b]]]
        return out, [rng.choice(["cnot", "cphase"]), [["Q", ra], ["Q", rb]]]

    def one(r, v=None):
        v = rng.randrange(nq) if v is None else v
        g = [rng.choice(SINGLE), [["Q", r]]] if rng.random() < 0.6 else ["rot_" + rng.choice("xyz"), [["Q", r], rng.randrange(32), rng.choice([1, 2, 3, 4])]]
        return [["set", [["Q", r], v]]], g

    for _ in range(rng.randrange(1, 4)):
        shape = rng.choice(["loop-head", "forward", "bystander"])
        if shape == "loop-head":
            ra, rb = rng.sample([0, 1, 2], 2)
            pre, g = two(ra, rb) if nq >= 2 and rng.random() < 0.8 else one(ra)
            cnt = rng.choice([1, 2, 3])
            prog += pre + [["set", [["R", 0], 0]], ["set", [["C", 0], cnt]], ["set", [["C", 10], 1]]]
            head = len(prog)
            prog.append(g)                       # the loop head is the gate itself
            for _j in range(rng.randrange(0, 3)):  # the body uses other registers, each set right before use
                r = rng.choice([3, 4, 5])
                if nq >= 2 and rng.random() < 0.5:
                    r2 = rng.choice([x for x in (3, 4, 5) if x != r])
                    p2, g2 = two(r, r2)
                else:
                    p2, g2 = one(r)
                prog += p2 + [g2]
            prog += [["add", [["R", 0], ["R", 0], ["C", 10]]], ["blt", [["R", 0], ["C", 0], head]]]
        elif shape == "forward":
            ra, rb = rng.sample([0, 1, 2, 3], 2)
            pre, g = two(ra, rb) if nq >= 2 and rng.random() < 0.8 else one(ra)
            v = rng.randrange(nq)
            prog += pre + [["set", [["Q", 4], v]], ["meas", [["Q", 4], ["M", 1]]]]
            br = len(prog)
            prog.append([rng.choice(["bez", "bnz"]), [["M", 1], None]])
            p2, g2 = one(5)
            prog += p2 + [g2]
            prog[br][1][1] = len(prog)           # the branch lands on the gate itself
            prog.append(g)
        else:
            # a bystander register that points at the electron on one path only, then a two-qubit gate on other registers
            v = rng.randrange(nq)
            other = rng.randrange(1, nq) if nq >= 2 else 0
            prog += [["set", [["Q", 5], other]], ["set", [["Q", 4], v]], ["meas", [["Q", 4], ["M", 2]]]]
            br = len(prog)
            prog.append([rng.choice(["bez", "bnz"]), [["M", 2], None]])
            prog += [["set", [["Q", 5], 0]], [rng.choice(["h", "z", "s"]), [["Q", 5]]]]
            prog[br][1][1] = len(prog)
            if nq >= 2:
                pre, g = two(0, 1)
                prog += pre + [g]
            # afterwards the bystander is used for what it points at on the other path
            prog += [["set", [["Q", 5], other]], [rng.choice(["x", "h"]), [["Q", 5]]]]
    return prog, {"loaded_two_qubit": False, "len": len(prog)}
