"""Entry point:  ./check <Cxx> [--tier quick|thorough] [--seed N] [--replay file]"""
from __future__ import annotations

import argparse
import json
import os
import subprocess
import sys
import time

ROOT = os.path.dirname(os.path.dirname(os.path.abspath(__file__)))
if ROOT not in sys.path:
    sys.path.insert(0, ROOT)
DEPS = os.path.join(ROOT, ".deps")


def ensure_deps() -> None:
    if not os.path.isdir(os.path.join(DEPS, "icontract")):
        subprocess.run(
            [sys.executable, "-m", "pip", "install", "-q", "--no-index", "--find-links", "/opt/veriftools/wheels",
             "--target", DEPS, "deal", "icontract"],
            stdout=subprocess.DEVNULL, stderr=subprocess.DEVNULL, check=False,
        )
    if DEPS not in sys.path:
        sys.path.append(DEPS)  # last: never shadow the interpreter's own packages


def main() -> int:
    ap = argparse.ArgumentParser()
    ap.add_argument("pid")
    ap.add_argument("--tier", default=os.environ.get("VERIF_TIER", "quick"))
    ap.add_argument("--seed", type=int, default=int(os.environ.get("VERIF_SEED", "0") or 0))
    ap.add_argument("--shard", default=None)
    ap.add_argument("--shards", type=int, default=None)
    ap.add_argument("--out", default=None)
    ap.add_argument("--replay", default=None)
    a = ap.parse_args()
    if a.tier not in ("quick", "thorough"):
        a.tier = "quick"
    if os.environ.get("PYTHONHASHSEED") != "0":
        os.environ["PYTHONHASHSEED"] = "0"
        os.execv(sys.executable, [sys.executable] + sys.argv)
    ensure_deps()
    import logging
    logging.disable(logging.WARNING)
    from vf import common

    pid = a.pid.upper()
    mod = common.load_module(pid)

    if a.replay:
        data = json.load(open(a.replay))
        ctx = common.Ctx(pid, a.tier, a.seed)
        if hasattr(mod, "setup"):
            mod.setup(ctx)
        ctx.known = {}  # a replay shows everything
        mod.run_case(ctx, data["case"])
        if ctx.violations:
            for v in ctx.violations:
                print("REPLAY violation:", v["what"])
                if v["detail"]:
                    print(v["detail"] if isinstance(v["detail"], str) else json.dumps(v["detail"], indent=1, default=repr))
            print(f"VIOLATION property={pid} replay={a.replay}")
            return 1
        print("REPLAY: case no longer violates the property")
        return 0

    if a.shard:  # worker mode
        i, n = map(int, a.shard.split("/"))
        ctx = common.Ctx(pid, a.tier, a.seed, i, n)
        common.drive(ctx, mod)
        with open(a.out, "w") as f:
            json.dump(ctx.dump(), f, default=repr)
        return 0

    t0 = time.time()
    nshards = a.shards if a.shards is not None else getattr(mod, "SHARDS", {"quick": 1, "thorough": common.NCORES})[a.tier]
    if nshards <= 1:
        ctx = common.Ctx(pid, a.tier, a.seed)
        common.drive(ctx, mod)
    else:
        timeout = getattr(mod, "WATCHDOG", {"quick": 900, "thorough": 5400})[a.tier]
        ctx = common.run_sharded(pid, a.tier, a.seed, nshards, timeout)
    return common.conclude(ctx, mod, time.time() - t0)


if __name__ == "__main__":
    sys.exit(main())
