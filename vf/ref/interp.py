"""R-INTERP: reference interpreter for the classical / array / allocation part of NetQASM.

Independent of netqasm.  A program is a list of [mnemonic, operands] (vf.ref.isa conventions) where, for the
*source-level* front end, any register position may instead hold a literal ["lit", v] (a literal evaluates
to itself and is never written), and entry/slice indices may be ints.

Faults are precise: execution stops *at* the instruction, nothing of it takes effect, and the fault
carries the instruction index.  `OutOfDomain` marks situations the property's fault list does not cover
(branching on an undefined register, negative targets / lengths / indices / qubit addresses, slices with
start > stop or stop > len): such cases are discarded by the checks, never judged.
"""
from __future__ import annotations

import copy
from typing import Dict, List, Optional


class Fault(Exception):
    def __init__(self, line: int, what: str):
        super().__init__(f"line {line}: {what}")
        self.line = line
        self.what = what


class OutOfDomain(Exception):
    pass


class Blocked(Exception):
    """A wait instruction whose condition does not hold (it would block until a response arrives)."""

    def __init__(self, line: int):
        super().__init__(f"blocked at line {line}")
        self.line = line


class StepBound(Exception):
    pass


class AppState:
    def __init__(self, unit_size: int):
        self.regs: Dict[str, int] = {}          # "R3" -> value ; absent = undefined
        self.arrays: Dict[int, List[Optional[int]]] = {}
        self.shared_regs: Dict[str, int] = {}
        self.shared_arrays: Dict[int, List[Optional[int]]] = {}
        self.shared_alias: Dict[int, List[Optional[int]]] = {}
        self.pubs: List[tuple] = []             # publications in order, at the moment of ret_*
        self.unit: List[bool] = [False] * unit_size

    def snapshot(self):
        return {"regs": dict(self.regs), "arrays": copy.deepcopy(self.arrays), "pubs": copy.deepcopy(self.pubs),
                "unit": list(self.unit)}


def rname(r) -> str:
    return f"{r[0]}{r[1]}"


def is_lit(op) -> bool:
    return isinstance(op, list) and len(op) == 2 and op[0] == "lit"


class Interp:
    def __init__(self, state: AppState, step_bound: int = 1000):
        self.s = state
        self.step_bound = step_bound
        self.trace: List[int] = []

    # operand access --------------------------------------------------------------------------
    def val(self, op):
        if isinstance(op, int):
            return op
        if is_lit(op):
            return op[1]
        return self.s.regs.get(rname(op))

    def setreg(self, r, v):
        assert not is_lit(r) and not isinstance(r, int), "write to a literal"
        self.s.regs[rname(r)] = v

    def need(self, op, line, what):
        v = self.val(op)
        if v is None:
            raise Fault(line, what)
        return v

    def entry(self, e, line, need_array=True):
        addr, idx = e[0], e[1]
        i = self.need(idx, line, "array index register undefined")
        if i < 0:
            raise OutOfDomain("negative array index")
        arr = self.s.arrays.get(addr)
        return addr, arr, i

    # execution -------------------------------------------------------------------------------
    def run(self, prog: list) -> None:
        """Runs to completion; raises Fault / Blocked / OutOfDomain / StepBound."""
        pc = 0
        steps = 0
        n = len(prog)
        while pc < n:
            steps += 1
            if steps > self.step_bound:
                raise StepBound()
            self.trace.append(pc)
            pc = self.step(prog, pc)

    def step(self, prog, pc) -> int:
        m, o = prog[pc]
        s = self.s
        if m == "set":
            self.setreg(o[0], self.val(o[1]) if not isinstance(o[1], int) else o[1])
        elif m == "lea":
            self.setreg(o[0], o[1])
        elif m == "array":
            ln = self.need(o[0], pc, "array length undefined")
            if ln < 0:
                raise OutOfDomain("negative array length")
            if ln > 4096:
                raise OutOfDomain("array larger than the harness memory bound (4096 entries)")
            s.arrays[o[1]] = [None] * ln
        elif m == "load":
            addr, arr, i = self.entry(o[1], pc)
            if arr is None:
                raise Fault(pc, "load from a missing array")
            if i >= len(arr):
                raise Fault(pc, "index past the end")
            if arr[i] is None:
                raise Fault(pc, "load of an undefined entry")
            self.setreg(o[0], arr[i])
        elif m == "store":
            v = self.need(o[0], pc, "store of an undefined register")
            addr, arr, i = self.entry(o[1], pc)
            if arr is None:
                raise Fault(pc, "store to a missing array")
            if i >= len(arr):
                raise Fault(pc, "index past the end")
            arr[i] = v
        elif m == "undef":
            addr, arr, i = self.entry(o[0], pc)
            if arr is None:
                raise Fault(pc, "undef on a missing array")
            if i >= len(arr):
                raise Fault(pc, "index past the end")
            arr[i] = None
        elif m in ("add", "sub"):
            a = self.need(o[1], pc, "operand undefined")
            b = self.need(o[2], pc, "operand undefined")
            self.setreg(o[0], a + b if m == "add" else a - b)
        elif m in ("addm", "subm"):
            mod = self.val(o[3])
            if mod is not None and mod < 1:
                raise Fault(pc, "modulus below one")
            a = self.need(o[1], pc, "operand undefined")
            b = self.need(o[2], pc, "operand undefined")
            if mod is None:
                raise Fault(pc, "modulus undefined")
            r = (a + b) if m == "addm" else (a - b)
            self.setreg(o[0], r - mod * (r // mod))  # mathematical (floored) modulus, result in [0, mod)
        elif m == "jmp":
            return self.target(o[0])
        elif m in ("bez", "bnz"):
            a = self.val(o[0])
            if a is None:
                raise OutOfDomain("branch on undefined register")
            taken = (a == 0) if m == "bez" else (a != 0)
            if taken:
                return self.target(o[1])
        elif m in ("beq", "bne", "blt", "bge"):
            a, b = self.val(o[0]), self.val(o[1])
            if a is None or b is None:
                raise OutOfDomain("branch on undefined register")
            taken = {"beq": a == b, "bne": a != b, "blt": a < b, "bge": a >= b}[m]
            if taken:
                return self.target(o[2])
        elif m == "ret_reg":
            v = self.need(o[0], pc, "return of an undefined register")
            s.shared_regs[rname(o[0])] = v
            s.pubs.append(("reg", rname(o[0]), v))
        elif m == "ret_arr":
            arr = s.arrays.get(o[0])
            if arr is None:
                raise Fault(pc, "return of a missing array")
            s.shared_arrays[o[0]] = list(arr)
            s.shared_alias[o[0]] = arr      # the returned list object itself (an in-process shared memory may alias it)
            s.pubs.append(("arr", o[0], list(arr)))
        elif m == "qalloc":
            a = self.need(o[0], pc, "qubit address undefined")
            if a < 0:
                raise OutOfDomain("negative qubit address")
            if a >= len(s.unit):
                raise Fault(pc, "address outside the unit module")
            if s.unit[a]:
                raise Fault(pc, "double allocation")
            s.unit[a] = True
        elif m == "qfree":
            a = self.need(o[0], pc, "qubit address undefined")
            if a < 0:
                raise OutOfDomain("negative qubit address")
            if a >= len(s.unit):
                raise Fault(pc, "address outside the unit module")
            if not s.unit[a]:
                raise Fault(pc, "free of an unallocated qubit")
            s.unit[a] = False
        elif m in ("wait_all", "wait_any"):
            addr, lo, hi = o[0]
            lo = self.need(lo, pc, "slice bound undefined")
            hi = self.need(hi, pc, "slice bound undefined")
            arr = s.arrays.get(addr)
            if arr is None:
                raise Fault(pc, "wait on a missing array")
            if lo < 0 or hi < 0 or lo > hi or hi > len(arr):
                raise OutOfDomain("slice outside 0 <= start <= stop <= len")
            part = arr[lo:hi]
            if m == "wait_all" and any(v is None for v in part):
                raise Blocked(pc)
            if m == "wait_any" and all(v is None for v in part):
                raise Blocked(pc)
        elif m == "wait_single":
            addr, arr, i = self.entry(o[0], pc)
            if arr is None:
                raise Blocked(pc)
            if i >= len(arr):
                raise Fault(pc, "index past the end")
            if arr[i] is None:
                raise Blocked(pc)
        else:
            raise ValueError(f"R-INTERP: unsupported instruction {m}")
        return pc + 1

    def target(self, t) -> int:
        t = t[1] if is_lit(t) else t
        if t < 0:
            raise OutOfDomain("negative jump target")
        return t


def run_program(state: AppState, prog: list, step_bound: int = 1000):
    """Returns (outcome, info): outcome in {'done','fault','blocked','bound','ood'}."""
    it = Interp(state, step_bound)
    backup = state.snapshot()
    try:
        it.run(prog)
        return "done", {"trace": it.trace}
    except Fault as f:
        return "fault", {"trace": it.trace, "line": f.line, "what": f.what}
    except Blocked as b:
        return "blocked", {"trace": it.trace, "line": b.line}
    except StepBound:
        return "bound", {"trace": it.trace}
    except OutOfDomain as e:
        return "ood", {"trace": it.trace, "why": str(e)}
