"""R-QUANTUM: independent operator semantics (nothing imported from netqasm).

Conventions (NetQASM paper): R_a(theta) = exp(-i theta sigma_a / 2);
crot_a(theta) = |0><0| (x) R_a(theta) + |1><1| (x) R_a(-theta), control = first qubit;
Bell states numbered 0 Phi+, 1 Psi+, 2 Psi-, 3 Phi- (wire contract).
"""
from __future__ import annotations

import cmath
import math
from typing import Dict, List, Optional, Sequence

import numpy as np

SQ = 1 / math.sqrt(2)
I2 = np.eye(2, dtype=complex)
X = np.array([[0, 1], [1, 0]], dtype=complex)
Y = np.array([[0, -1j], [1j, 0]], dtype=complex)
Z = np.array([[1, 0], [0, -1]], dtype=complex)
H = np.array([[1, 1], [1, -1]], dtype=complex) * SQ
K = np.array([[1, -1j], [1j, -1]], dtype=complex) * SQ
S = np.array([[1, 0], [0, 1j]], dtype=complex)
T = np.array([[1, 0], [0, cmath.exp(1j * math.pi / 4)]], dtype=complex)
PAULI = {"x": X, "y": Y, "z": Z}
STATIC1 = {"x": X, "y": Y, "z": Z, "h": H, "k": K, "s": S, "t": T}

CNOT = np.array([[1, 0, 0, 0], [0, 1, 0, 0], [0, 0, 0, 1], [0, 0, 1, 0]], dtype=complex)
CZ = np.diag([1, 1, 1, -1]).astype(complex)
SWAP = np.array([[1, 0, 0, 0], [0, 0, 1, 0], [0, 1, 0, 0], [0, 0, 0, 1]], dtype=complex)
STATIC2 = {"cnot": CNOT, "cphase": CZ, "mov": SWAP}


def rot(axis: str, theta: float) -> np.ndarray:
    c, s = math.cos(theta / 2), math.sin(theta / 2)
    return c * I2 - 1j * s * PAULI[axis]


def crot(axis: str, theta: float) -> np.ndarray:
    p0 = np.array([[1, 0], [0, 0]], dtype=complex)
    p1 = np.array([[0, 0], [0, 1]], dtype=complex)
    return np.kron(p0, rot(axis, theta)) + np.kron(p1, rot(axis, -theta))


def angle_nd(n: int, d: int) -> float:
    return n * math.pi / (2.0 ** d)


TOFFOLI = np.eye(8, dtype=complex)
TOFFOLI[6:, 6:] = X

BELL = {
    0: np.array([1, 0, 0, 1], dtype=complex) * SQ,   # Phi+
    1: np.array([0, 1, 1, 0], dtype=complex) * SQ,   # Psi+
    2: np.array([0, 1, -1, 0], dtype=complex) * SQ,  # Psi-
    3: np.array([1, 0, 0, -1], dtype=complex) * SQ,  # Phi-
}


def eq_up_to_phase(a: np.ndarray, b: np.ndarray, tol: float = 1e-9) -> bool:
    a = np.asarray(a, dtype=complex)
    b = np.asarray(b, dtype=complex)
    if a.shape != b.shape:
        return False
    idx = np.unravel_index(np.argmax(np.abs(b)), b.shape)
    if abs(b[idx]) < 1e-12:
        return bool(np.allclose(a, 0, atol=tol))
    if abs(a[idx]) < 1e-12:
        return False
    ph = a[idx] / b[idx]
    ph /= abs(ph)
    return bool(np.allclose(a, ph * b, atol=tol))


def fidelity(a: np.ndarray, b: np.ndarray) -> float:
    return float(abs(np.vdot(a.reshape(-1), b.reshape(-1))) ** 2)


class StateVec:
    """Pure state over labelled qubits. Axis i of the tensor belongs to labels[i]."""

    def __init__(self):
        self.labels: List = []
        self.t = np.ones((), dtype=complex)

    def copy(self) -> "StateVec":
        s = StateVec()
        s.labels = list(self.labels)
        s.t = self.t.copy()
        return s

    def has(self, label) -> bool:
        return label in self.labels

    def add(self, label, vec: Optional[Sequence[complex]] = None) -> None:
        assert label not in self.labels, f"qubit {label} already present"
        v = np.array([1, 0], dtype=complex) if vec is None else np.asarray(vec, dtype=complex)
        self.t = np.tensordot(self.t, v, axes=0)
        self.labels.append(label)

    def add_pair(self, l1, l2, vec4: Sequence[complex]) -> None:
        assert l1 not in self.labels and l2 not in self.labels
        v = np.asarray(vec4, dtype=complex).reshape(2, 2)
        self.t = np.tensordot(self.t, v, axes=0)
        self.labels += [l1, l2]

    def apply1(self, label, u: np.ndarray) -> None:
        ax = self.labels.index(label)
        t = np.tensordot(u, self.t, axes=([1], [ax]))
        self.t = np.moveaxis(t, 0, ax)

    def apply2(self, l1, l2, u4: np.ndarray) -> None:
        assert l1 != l2
        a1, a2 = self.labels.index(l1), self.labels.index(l2)
        u = np.asarray(u4, dtype=complex).reshape(2, 2, 2, 2)
        t = np.tensordot(u, self.t, axes=([2, 3], [a1, a2]))
        self.t = np.moveaxis(t, [0, 1], [a1, a2])

    def prob1(self, label) -> float:
        ax = self.labels.index(label)
        t = np.moveaxis(self.t, ax, 0)
        p1 = float(np.sum(np.abs(t[1]) ** 2))
        tot = float(np.sum(np.abs(t) ** 2))
        return p1 / tot if tot > 0 else 0.0

    def project(self, label, outcome: int) -> None:
        ax = self.labels.index(label)
        t = np.moveaxis(self.t, ax, 0).copy()
        t[1 - outcome] = 0
        nrm = math.sqrt(float(np.sum(np.abs(t) ** 2)))
        assert nrm > 1e-12, "projection onto a zero-probability outcome"
        self.t = np.moveaxis(t / nrm, 0, ax)

    def remove(self, label, outcome: int) -> None:
        """Project onto `outcome` and drop the qubit."""
        self.project(label, outcome)
        ax = self.labels.index(label)
        self.t = np.take(self.t, outcome, axis=ax)
        self.labels.pop(ax)

    def vector(self, order: Sequence) -> np.ndarray:
        """Flattened state with the qubits in the given order (must be a permutation of labels)."""
        assert sorted(map(repr, order)) == sorted(map(repr, self.labels)), (order, self.labels)
        perm = [self.labels.index(l) for l in order]
        return np.transpose(self.t, perm).reshape(-1) if perm else self.t.reshape(-1)

    def pair_state(self, l1, l2):
        """If (l1,l2) factor out as a pure 2-qubit state return it (4-vector), else None."""
        a1, a2 = self.labels.index(l1), self.labels.index(l2)
        t = np.moveaxis(self.t, [a1, a2], [0, 1]).reshape(4, -1)
        u, s, vh = np.linalg.svd(t, full_matrices=False)
        if s[0] ** 2 < 1 - 1e-9:
            return None
        return u[:, 0]

    def single_state(self, l):
        ax = self.labels.index(l)
        t = np.moveaxis(self.t, ax, 0).reshape(2, -1)
        u, s, vh = np.linalg.svd(t, full_matrices=False)
        if s[0] ** 2 < 1 - 1e-9:
            return None
        return u[:, 0]


class MeasScript:
    """Outcome of the k-th *non-deterministic* measurement is script[k]; forced outcomes do not consume it."""

    def __init__(self, script: Sequence[int] = (), default: int = 0):
        self.script = list(script)
        self.default = default
        self.k = 0
        self.log: List = []  # (p1, outcome, forced)

    def choose(self, p1: float) -> int:
        if p1 < 1e-9:
            self.log.append((p1, 0, True))
            return 0
        if p1 > 1 - 1e-9:
            self.log.append((p1, 1, True))
            return 1
        o = self.script[self.k] if self.k < len(self.script) else self.default
        self.k += 1
        self.log.append((p1, o, False))
        return o

    def weight(self) -> float:
        w = 1.0
        for p1, o, forced in self.log:
            if not forced:
                w *= p1 if o == 1 else (1 - p1)
        return w

    def free_choices(self) -> List[int]:
        return [o for _, o, forced in self.log if not forced]


def random_state(rng, n: int) -> np.ndarray:
    v = np.array([complex(rng.gauss(0, 1), rng.gauss(0, 1)) for _ in range(2 ** n)])
    return v / np.linalg.norm(v)
