"""R-ISA: frozen reference instruction table and struct-based reference codec.

Nothing here is imported from netqasm.  The table is written out literally from the NetQASM
instruction table (pinned tree; vanilla `mov` = 42 after the opcode-clash repair).

Operand value conventions (all JSON-able):
  reg    ["R"|"C"|"Q"|"M", index]
  imm8   int 0..255
  int32  int -2**31..2**31-1
  addr   int (int32)
  entry  [addr, reg]
  slice  [addr, reg, reg]
"""
from __future__ import annotations

import struct
from typing import Dict, List, Tuple

BANKS = {"R": 0, "C": 1, "Q": 2, "M": 3}
BANK_NAMES = {v: k for k, v in BANKS.items()}
COMMAND_BYTES = 7
HEADER_BYTES = 4

R, I8, I32, AD, EN, SL = "reg", "imm8", "int32", "addr", "entry", "slice"

CORE: Dict[str, Tuple[int, List[str]]] = {
    "qalloc": (1, [R]),
    "init": (2, [R]),
    "array": (3, [R, AD]),
    "set": (4, [R, I32]),
    "store": (5, [R, EN]),
    "load": (6, [R, EN]),
    "undef": (7, [EN]),
    "lea": (8, [R, AD]),
    "jmp": (9, [I32]),
    "bez": (10, [R, I32]),
    "bnz": (11, [R, I32]),
    "beq": (12, [R, R, I32]),
    "bne": (13, [R, R, I32]),
    "blt": (14, [R, R, I32]),
    "bge": (15, [R, R, I32]),
    "add": (16, [R, R, R]),
    "sub": (17, [R, R, R]),
    "addm": (18, [R, R, R, R]),
    "subm": (19, [R, R, R, R]),
    "meas": (32, [R, R]),
    "create_epr": (33, [R, R, R, R, R]),
    "recv_epr": (34, [R, R, R, R]),
    "wait_all": (35, [SL]),
    "wait_any": (36, [SL]),
    "wait_single": (37, [EN]),
    "qfree": (38, [R]),
    "ret_reg": (39, [R]),
    "ret_arr": (40, [AD]),
    "meas_basis": (41, [R, R, I8, I8, I8, I8]),
    "breakpoint": (100, [I8, I8]),
}

VANILLA_ONLY: Dict[str, Tuple[int, List[str]]] = {
    "x": (20, [R]),
    "y": (21, [R]),
    "z": (22, [R]),
    "h": (23, [R]),
    "s": (24, [R]),
    "k": (25, [R]),
    "t": (26, [R]),
    "rot_x": (27, [R, I8, I8]),
    "rot_y": (28, [R, I8, I8]),
    "rot_z": (29, [R, I8, I8]),
    "cnot": (30, [R, R]),
    "cphase": (31, [R, R]),
    "mov": (42, [R, R]),
}

NV_ONLY: Dict[str, Tuple[int, List[str]]] = {
    "rot_x": (27, [R, I8, I8]),
    "rot_y": (28, [R, I8, I8]),
    "rot_z": (29, [R, I8, I8]),
    "crot_x": (30, [R, R, I8, I8]),
    "crot_y": (31, [R, R, I8, I8]),
}

TABLE: Dict[str, Dict[str, Tuple[int, List[str]]]] = {
    "vanilla": {**CORE, **VANILLA_ONLY},
    "nv": {**CORE, **NV_ONLY},
    "reids": dict(CORE),
}

INT32_MIN, INT32_MAX = -(2**31), 2**31 - 1


def in_range(kind: str, v) -> bool:
    if kind == R:
        return v[0] in BANKS and 0 <= v[1] <= 15
    if kind == I8:
        return 0 <= v <= 255
    if kind in (I32, AD):
        return INT32_MIN <= v <= INT32_MAX
    if kind == EN:
        return in_range(AD, v[0]) and in_range(R, v[1])
    if kind == SL:
        return in_range(AD, v[0]) and in_range(R, v[1]) and in_range(R, v[2])
    raise ValueError(kind)


def enc_reg(v) -> bytes:
    return bytes([BANKS[v[0]] | (v[1] << 2)])


def enc_operand(kind: str, v) -> bytes:
    if kind == R:
        return enc_reg(v)
    if kind == I8:
        return struct.pack("<B", v)
    if kind in (I32, AD):
        return struct.pack("<i", v)
    if kind == EN:
        return struct.pack("<i", v[0]) + enc_reg(v[1])
    if kind == SL:
        return struct.pack("<i", v[0]) + enc_reg(v[1]) + enc_reg(v[2])
    raise ValueError(kind)


def encode_instr(flavour: str, mnemonic: str, values: list) -> bytes:
    opcode, kinds = TABLE[flavour][mnemonic]
    assert len(kinds) == len(values), (mnemonic, values)
    body = bytes([opcode]) + b"".join(enc_operand(k, v) for k, v in zip(kinds, values))
    assert len(body) <= COMMAND_BYTES
    return body + b"\x00" * (COMMAND_BYTES - len(body))


def encode_header(version: Tuple[int, int], app_id: int) -> bytes:
    return struct.pack("<BBH", version[0], version[1], app_id)


def encode_subroutine(flavour: str, version, app_id: int, instrs: list) -> bytes:
    return encode_header(tuple(version), app_id) + b"".join(encode_instr(flavour, m, v) for m, v in instrs)


def dec_reg(b: int):
    return [BANK_NAMES[b & 3], (b >> 2) & 15]


def decode_instr(flavour: str, raw: bytes):
    """Reference decode of one 7-byte command; returns (mnemonic, values, padding_ok, reg_padding_ok)."""
    assert len(raw) == COMMAND_BYTES
    by_op = {op: (m, kinds) for m, (op, kinds) in TABLE[flavour].items()}
    m, kinds = by_op[raw[0]]
    pos = 1
    vals = []
    regpad = True
    for k in kinds:
        if k == R:
            vals.append(dec_reg(raw[pos]))
            regpad &= raw[pos] < 64
            pos += 1
        elif k == I8:
            vals.append(raw[pos])
            pos += 1
        elif k in (I32, AD):
            vals.append(struct.unpack("<i", raw[pos:pos + 4])[0])
            pos += 4
        elif k == EN:
            vals.append([struct.unpack("<i", raw[pos:pos + 4])[0], dec_reg(raw[pos + 4])])
            regpad &= raw[pos + 4] < 64
            pos += 5
        elif k == SL:
            vals.append([struct.unpack("<i", raw[pos:pos + 4])[0], dec_reg(raw[pos + 4]), dec_reg(raw[pos + 5])])
            regpad &= raw[pos + 4] < 64 and raw[pos + 5] < 64
            pos += 6
    return m, vals, raw[pos:] == b"\x00" * (COMMAND_BYTES - pos), regpad


def decode_subroutine(flavour: str, raw: bytes):
    v0, v1, app = struct.unpack("<BBH", raw[:4])
    body = raw[4:]
    assert len(body) % COMMAND_BYTES == 0
    ins = []
    for i in range(0, len(body), COMMAND_BYTES):
        m, vals, _, _ = decode_instr(flavour, body[i:i + COMMAND_BYTES])
        ins.append((m, vals))
    return (v0, v1), app, ins


# ---- reference text forms (NetQASM source syntax) -------------------------------------------------

def fmt_reg(v) -> str:
    return f"{v[0]}{v[1]}"


def fmt_operand(kind: str, v) -> str:
    if kind == R:
        return fmt_reg(v)
    if kind in (I8, I32):
        return str(v)
    if kind == AD:
        return f"@{v}"
    if kind == EN:
        return f"@{v[0]}[{fmt_reg(v[1]) if isinstance(v[1], list) else v[1]}]"
    if kind == SL:
        a = fmt_reg(v[1]) if isinstance(v[1], list) else v[1]
        b = fmt_reg(v[2]) if isinstance(v[2], list) else v[2]
        return f"@{v[0]}[{a}:{b}]"
    raise ValueError(kind)


def fmt_instr(flavour: str, mnemonic: str, values: list) -> str:
    _, kinds = TABLE[flavour][mnemonic]
    return " ".join([mnemonic] + [fmt_operand(k, v) for k, v in zip(kinds, values)])
