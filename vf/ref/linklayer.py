"""R-LINK: reference model of how link-layer responses are matched to EPR requests.

Rule (property C12): responses of one key (remote node, purpose, role) are consumed in arrival order by the oldest
outstanding request of that key; pair k of a request fills slice k of that request's result array and maps that
request's k-th virtual qubit; a request retires after exactly its number of pairs.

The model is fed the *observed* issue order of requests (a schedule decides which of two applications issues
first) and the arrival order of responses per key, and predicts result arrays and qubit mappings.
"""
from __future__ import annotations

from typing import Dict, List, Tuple

OK_FIELDS = 10


class Request:
    def __init__(self, rid, app, key, number, result_addr, qubit_ids, tp):
        self.rid, self.app, self.key, self.number = rid, app, key, number
        self.result_addr, self.qubit_ids, self.tp = result_addr, qubit_ids, tp


class RLink:
    def __init__(self):
        self.requests: Dict[tuple, List[Request]] = {}     # key -> requests in issue order
        self.responses: Dict[tuple, List[dict]] = {}       # key -> responses in arrival order

    def issue(self, req: Request):
        self.requests.setdefault(req.key, []).append(req)

    def arrive(self, key, resp: dict):
        self.responses.setdefault(key, []).append(resp)

    def predict(self):
        """Returns (arrays, qubit_maps, consumption) for everything that can be matched so far:
        arrays: {(app, result_addr): [values...]}, qubit_maps: {(app, virtual id): physical id},
        consumption: [(response id, request id, pair index)]."""
        arrays: Dict[Tuple[int, int], list] = {}
        qmap: Dict[Tuple[int, int], int] = {}
        consumption = []
        for key, reqs in self.requests.items():
            resps = self.responses.get(key, [])
            j = 0
            for r in reqs:
                arr = arrays.setdefault((r.app, r.result_addr), [None] * (OK_FIELDS * r.number))
                for k in range(r.number):
                    if j >= len(resps):
                        break
                    resp = resps[j]
                    j += 1
                    arr[k * OK_FIELDS:(k + 1) * OK_FIELDS] = resp["fields"]
                    consumption.append((resp["rid"], r.rid, k))
                    if resp["kind"] == "K" and r.qubit_ids is not None:
                        qmap[(r.app, r.qubit_ids[k])] = resp["phys"]
        return arrays, qmap, consumption
