"""R-HOST: a tiny AST for SDK host programs and a *direct* evaluator over Python ints / lists.

Nothing is imported from netqasm.  The evaluator gives the meaning of a host program "executed directly":

* handles are created once, where the host code creates them (staged semantics of the SDK: the body of a
  loop / if is Python code that runs once and emits operations); arrays created anywhere in a flush
  segment exist, with their initial values, from the beginning of that segment;
* operations (gates, measurements, add, register writes, qubit allocation) happen every time control
  reaches them;
* measurement outcomes come from a script, consumed only when both outcomes are possible (the quantum
  state is tracked with R-QUANTUM so forced outcomes are known).

Statement forms (JSON):
  {"op":"array","name":A,"init":[..]} | {"op":"array","name":A,"len":n}
  {"op":"reg","name":R,"init":v}
  {"op":"qalloc","q":Q}   {"op":"gate","g":g,"q":Q}   {"op":"cnot","c":Q,"t":Q}
  {"op":"rot","axis":"x|y|z","q":Q,"n":int|{"tmpl":name},"d":int}
  {"op":"meas","q":Q,"to":T,"inplace":b}     T = {"kind":"new","name":F} | {"kind":"reg","name":RF} | {"kind":"entry","array":A,"idx":IDX}
  {"op":"add","target":V,"other":O,"mod":m|None}
  {"op":"if","cond":c,"a":O,"b":O|None,"form":"ctx"|"cb","body":[..]}
  {"op":"loop","var":I,"start":s,"stop":e,"step":k,"form":"ctx"|"cb","body":[..]}
  {"op":"foreach","array":A,"var":V,"idxvar":I|None,"body":[..]}
  {"op":"until","max":n,"var":I,"body":[..],"exit":{"val":V,"atmost":v},"cleanup":[..]?}
  loops may carry "reg": "R5" (explicit loop register); {"kind":"reg","name":RF,"reuse":true} measures into an existing RegFuture
  {"op":"flush"}
IDX may also be {"at": {"array":A2,"idx":j}} (index read from another array entry).
Values V/O: int | {"kind":"entry","array":A,"idx":IDX} | {"kind":"fut","name":F} | {"kind":"reg","name":R} |
            {"kind":"var","name":I};   IDX: int | {"var":I}
"""
from __future__ import annotations

from typing import Dict, List, Optional

from vf.ref import quantum as rq


class HostFault(Exception):
    """The direct evaluation itself hits an error (undefined value used, index out of range...)."""


class StepBound(Exception):
    pass


CONDS = {
    "eq": lambda a, b: a == b, "ne": lambda a, b: a != b, "lt": lambda a, b: a < b, "ge": lambda a, b: a >= b,
    "ez": lambda a, b: a == 0, "nz": lambda a, b: a != 0,
}


def segments(prog: list) -> List[list]:
    segs, cur = [], []
    for st in prog:
        if st["op"] == "flush":
            segs.append(cur)
            cur = []
        else:
            cur.append(st)
    segs.append(cur)
    return segs


def static_decls(stmts: list, out: list) -> list:
    """Arrays created in this statement list (recursively), in host-code creation order."""
    for st in stmts:
        op = st["op"]
        if op == "array":
            out.append(("array", st["name"], list(st["init"]) if "init" in st else [None] * st["len"]))
        elif op == "meas" and st["to"]["kind"] == "new":
            out.append(("array", st["to"]["name"], [None]))
        if "body" in st:
            static_decls(st["body"], out)
        if st.get("cleanup"):
            static_decls(st["cleanup"], out)
    return out


class DirectEval:
    def __init__(self, script, step_bound: int = 4000, default: int = 0):
        self.arrays: Dict[str, List[Optional[int]]] = {}
        self.regs: Dict[str, Optional[int]] = {}      # new_register handles and register-measurement handles
        self.vars: Dict[str, int] = {}                # loop variables
        self.futs: Dict[str, tuple] = {}              # foreach element aliases: name -> (array, idxvar)
        self.qubits: Dict[str, bool] = {}
        self.sv = rq.StateVec()
        self.script = rq.MeasScript(script, default=default)
        self.trace: List[tuple] = []                  # (op, qubit names...)
        self.steps = 0
        self.step_bound = step_bound
        self.executed_bodies = 0
        self.iterations = 0
        self.templates: Dict[str, int] = {}

    def tick(self):
        self.steps += 1
        if self.steps > self.step_bound:
            raise StepBound()

    # ---- values -------------------------------------------------------------------------------
    def idx(self, i):
        if isinstance(i, int):
            return i
        if "reg" in i:  # index held in a register handle (a RegFuture used as index)
            v = self.regs.get(i["reg"])
            if v is None:
                raise HostFault(f"register handle {i['reg']} used as index before it holds a value")
            return v
        if "at" in i:   # index held in another array entry (a Future used as index)
            return self.read({"kind": "entry", "array": i["at"]["array"], "idx": i["at"]["idx"]})
        return self.vars[i["var"]]

    def loc(self, v):
        k = v["kind"]
        if k == "entry":
            return ("arr", v["array"], self.idx(v["idx"]))
        if k == "fut":
            if v["name"] in self.futs:
                a, iv = self.futs[v["name"]]
                return ("arr", a, self.vars[iv])
            return ("arr", v["name"], 0)
        if k == "reg":
            return ("reg", v["name"], None)
        if k == "var":
            return ("var", v["name"], None)
        raise ValueError(k)

    def read(self, v):
        if isinstance(v, int):
            return v
        kind, name, i = self.loc(v)
        if kind == "arr":
            arr = self.arrays.get(name)
            if arr is None:
                raise HostFault(f"array {name} does not exist")
            if not 0 <= i < len(arr):
                raise HostFault(f"index {i} outside array {name}")
            if arr[i] is None:
                raise HostFault(f"read of undefined {name}[{i}]")
            return arr[i]
        if kind == "reg":
            x = self.regs.get(name)
            if x is None:
                raise HostFault(f"read of undefined register {name}")
            return x
        return self.vars[name]

    def write(self, v, value):
        kind, name, i = self.loc(v)
        if kind == "arr":
            arr = self.arrays.get(name)
            if arr is None:
                raise HostFault(f"array {name} does not exist")
            if not 0 <= i < len(arr):
                raise HostFault(f"index {i} outside array {name}")
            arr[i] = value
        elif kind == "reg":
            self.regs[name] = value
        else:
            raise HostFault("write to a loop variable")

    # ---- execution -----------------------------------------------------------------------------
    def run_segment(self, stmts: list) -> None:
        for _, name, init in static_decls(stmts, []):
            self.arrays[name] = list(init)
        self.block(stmts)

    def block(self, stmts: list) -> None:
        for st in stmts:
            self.stmt(st)

    def stmt(self, st) -> None:
        self.tick()
        op = st["op"]
        if op == "array":
            return
        if op == "reg":
            self.regs[st["name"]] = st["init"]
        elif op == "qalloc":
            q = st["q"]
            if self.qubits.get(q):
                raise HostFault(f"qubit {q} allocated twice")
            self.qubits[q] = True
            self.sv.add(q)
            self.trace.append(("init", q))
        elif op == "gate":
            self.need_qubit(st["q"])
            self.sv.apply1(st["q"], rq.STATIC1[st["g"]])
            self.trace.append((st["g"], st["q"]))
        elif op == "rot":
            self.need_qubit(st["q"])
            n = st["n"]
            if isinstance(n, dict):
                n = self.templates[n["tmpl"]]
            d = st["d"]
            if isinstance(d, dict):
                d = self.templates[d["tmpl"]]
            self.sv.apply1(st["q"], rq.rot(st["axis"], rq.angle_nd(n, d)))
            self.trace.append(("rot_" + st["axis"], st["q"], n, d))
        elif op == "cnot":
            self.need_qubit(st["c"])
            self.need_qubit(st["t"])
            self.sv.apply2(st["c"], st["t"], rq.CNOT)
            self.trace.append(("cnot", st["c"], st["t"]))
        elif op == "meas":
            q = st["q"]
            self.need_qubit(q)
            o = self.script.choose(self.sv.prob1(q))
            if st.get("inplace"):
                self.sv.project(q, o)
            else:
                self.sv.remove(q, o)
                self.qubits[q] = False
            self.trace.append(("meas", q, o))
            t = st["to"]
            if t["kind"] == "new":
                self.arrays[t["name"]][0] = o
            elif t["kind"] == "reg":
                self.regs[t["name"]] = o
            else:
                self.write(t, o)
        elif op == "add":
            a = self.read(st["target"])
            b = self.read(st["other"])
            r = a + b
            if st.get("mod") is not None:
                m = st["mod"]
                if m < 1:
                    raise HostFault("modulus below one")
                r = r - m * (r // m)
            self.write(st["target"], r)
        elif op == "if":
            a = self.read(st["a"])
            b = self.read(st["b"]) if st.get("b") is not None else None
            if CONDS[st["cond"]](a, b):
                self.executed_bodies += 1
                self.block(st["body"])
        elif op == "loop":
            # documented meaning: the index runs over range(start, stop, step) (stop excluded)
            stop = st["stop"]
            if st.get("stop_from") is not None:
                # the bound is a value the host read from an array after an earlier flush (a resolved Future passed as `stop`)
                stop = self.arrays[st["stop_from"]["array"]][st["stop_from"]["idx"]]
            for i in range(st["start"], stop, st["step"]):
                self.tick()
                self.vars[st["var"]] = i
                self.iterations += 1
                self.block(st["body"])
        elif op == "foreach":
            n = len(self.arrays[st["array"]])
            iv = st.get("idxvar") or ("_i_" + st["var"])
            self.futs[st["var"]] = (st["array"], iv)
            for i in range(n):
                self.tick()
                self.vars[iv] = i
                self.iterations += 1
                self.block(st["body"])
        elif op == "until":
            i = 0
            while i != st["max"]:
                self.tick()
                self.vars[st["var"]] = i
                self.iterations += 1
                self.block(st["body"])
                if self.read(st["exit"]["val"]) <= st["exit"]["atmost"]:
                    break
                if st.get("cleanup"):
                    self.block(st["cleanup"])     # runs when the exit condition does not hold, before the next iteration
                i += 1
        else:
            raise ValueError(op)

    def need_qubit(self, q):
        if not self.qubits.get(q):
            raise HostFault(f"qubit {q} used while not allocated")
