"""C10 — entanglement looks like Phi+ whatever Bell state the link delivered (L3 pipeline + link model)."""
from __future__ import annotations

import itertools
import math

import numpy as np

from vf.harness import controller as hc
from vf.harness.link import LinkModel, PlannedRequest
from vf.harness.pipeline import Pipe
from vf.ref import quantum as rq

PID = "C10"
LEVEL = "exploration"
RULE = ("enumerated: pair counts 1..4 x ALL Bell-state tuples (quick: all tuples for 1-2 pairs, 60 random tuples for 3-4) x "
        "API variant {recv_keep, recv_keep+post routine, recv_keep sequential+post routine, recv_keep_with_info, recv_rsp, "
        "recv_rsp_with_info, create_keep, create_keep_with_info, create_keep sequential, recv/create_keep_with_info sequential+post routine} x {generic, NV} hardware x 0..2 other live qubits in "
        "known asymmetric states (shifting the virtual IDs) x expect_phi_plus on/off; measure-directly: 6 named bases x 4 "
        "Bell states x both raw outcomes, exact joint distribution computed with R-QUANTUM. Oracle: fidelity of each kept "
        "qubit with its modelled remote partner >= 1-1e-9 w.r.t. Phi+ (or the delivered Bell state when nothing may be "
        "corrected), every other qubit unchanged."
        ' Keep cases also with the responses handed over as qlink-interface 1.0 objects (named Bell states); recv_measure both with the bases entered into the result object by the application and without. '
        "Non-trivial = at least one delivered Bell state differs from Phi+; "
        "distinct = distinct case description.")
ASSUMPTIONS = ["the modelled remote partner holds the other half of the delivered Bell state and is never touched",
               "known finding epr-keep-corrections:applied-to-virtual-qubit-0 is accepted only when the observed state equals the state predicted by exactly that mechanism",
               "on NV hardware the SDK's qubit budget is number of pairs + other live qubits + 1 free slot"]
SHARDS = {"quick": 4, "thorough": 16}
MIN_COUNTERS = {"kept_pairs_checked": 500, "measure_distributions_checked": 20}
MIN_NONTRIVIAL = {"quick": 200, "thorough": 2000}
WALL_BUDGET = {"quick": 200, "thorough": 2400}
KF = "epr-keep-corrections:applied-to-virtual-qubit-0"
KF_RSP_NV = "epr-recv-rsp:nv-multi-pair-target-preallocated"
KF_RSP_RETRY = "epr-recv-rsp-retry:no-clean-up-between-attempts"

KF_RECV_BASIS = "recv-measure:post-processing-assumes-Z-basis"
VARIANTS = ["recv_keep", "recv_keep_post", "recv_keep_seq", "recv_keep_with_info", "recv_rsp", "recv_rsp_with_info",
            "create_keep", "create_keep_seq", "recv_keep_retry", "recv_keep_seq_retry", "create_keep_retry", "recv_rsp_retry", "recv_keep_seq1", "create_keep_seq1", "create_keep_with_info",
            "recv_keep_with_info_seq", "create_keep_with_info_seq"]
OTHER_STATES = [np.array([math.cos(0.4), math.sin(0.4) * np.exp(0.7j)]), np.array([math.cos(1.1), math.sin(1.1) * np.exp(-1.3j)])]
PAULI_FOR_BELL = {0: [], 1: ["x"], 2: ["x", "z"], 3: ["z"]}   # correction turning |b> into Phi+ (applied to one half)


def cases(ctx):
    rng = ctx.erng      # every random decision below shapes the enumeration that mine(k) splits over the shards
    k = 0
    for n in (1, 2, 3, 4):
        tuples = list(itertools.product(range(4), repeat=n))
        if ctx.quick and n >= 3:
            tuples = rng.sample(tuples, 30)
        elif not ctx.quick and n == 4:
            tuples = rng.sample(tuples, 128)
        for bells in tuples:
            for var in VARIANTS:
                for hw in ("generic", "nv"):
                    others_opts = (0, 1, 2) if (not ctx.quick or n <= 2) else (rng.choice([0, 1, 2]),)
                    for others in others_opts:
                        for expect in (True, False):
                            if var.startswith("create") and not expect:
                                continue
                            if var == "recv_keep_post" and hw == "nv":
                                continue  # post_routine is documented for sequential=True only; on NV the combination is not staged
                            if var.endswith("_seq1") and n != 1:
                                continue
                            if var.endswith("_retry") and (others > 0 and hw == "nv"):
                                continue  # NV + retry + a qubit on ID 0: relocation inside the retry loop (C09's known finding)
                            skip = rng.random() < 0.5
                            if ctx.quick and n == 2 and skip:
                                continue
                            k += 1
                            if ctx.mine(k):
                                yield {"kind": "keep", "variant": var, "bells": list(bells), "hardware": hw,
                                       "others": others, "expect_phi_plus": expect}
                            if hw == "nv" and n <= 2:
                                k += 1
                                take = rng.random() < 0.5
                                if ctx.mine(k) and (not ctx.quick or take):
                                    yield {"kind": "keep", "variant": var, "bells": list(bells), "hardware": "nvc",
                                           "others": others, "expect_phi_plus": expect}
                            if not var.endswith("_retry") and "rsp" not in var:
                                # the link layer hands its responses over as qlink-interface 1.0 objects (own Bell-state enum)
                                k += 1
                                take = rng.random() < 0.3      # (drawn in every shard, whoever owns k: the streams stay in step)
                                if ctx.mine(k) and (not ctx.quick or n == 1 or take):
                                    yield {"kind": "keep", "variant": var, "bells": list(bells), "hardware": hw,
                                           "others": others, "expect_phi_plus": expect, "qlink10": True}
                            if hw == "generic" and not var.endswith("_seq") and "post" not in var and "seq" not in var:
                                # a unit module with exactly as many qubits as the request needs (n = 1: a single-qubit node)
                                k += 1
                                take = rng.random() < 0.3
                                if ctx.mine(k) and (not ctx.quick or n == 1 or take):
                                    yield {"kind": "keep", "variant": var, "bells": list(bells), "hardware": hw,
                                           "others": others, "expect_phi_plus": expect, "tight": True}
    # other live qubits that leave a HOLE in the virtual IDs: qubits on IDs 0..holes-1 were freed again, a live one sits above them
    for n in (2, 3):
        for var in ("recv_keep", "create_keep", "recv_keep_with_info", "recv_rsp"):
            for hw in ("generic", "nv", "nvc"):
                for holes in (1, 2):
                    bells = [rng.randrange(4) for _ in range(n)]
                    k += 1
                    if ctx.mine(k):
                        yield {"kind": "keep", "variant": var, "bells": bells, "hardware": hw, "others": 1, "holes": holes,
                               "expect_phi_plus": True}
    # several requests on ONE connection (the earlier pairs are measured away in between): a refused request, or registers taken
    # by the application, in between - every request is corrected on its own terms
    for hw, n in (("nv", 1), ("nv", 2), ("generic", 1), ("nvc", 2)):
        for between in ("nothing", "registers", "refused", "refused+registers"):
            for var in ("recv_keep", "recv_keep_with_info"):
                rounds = [[rng.randrange(4) for _ in range(n)] for _ in range(3)]
                rounds[1] = [b or 2 for b in rounds[1]]       # (the later rounds always need a correction)
                rounds[2] = [b or 1 for b in rounds[2]]
                k += 1
                if ctx.mine(k):
                    yield {"kind": "keep-history", "variant": var, "hardware": hw, "rounds": rounds, "between": between}
    for basis in ("X", "Y", "Z", "MX", "MY", "MZ"):
        for b in range(4):
            for role in ("recv", "create"):
                k += 1
                if ctx.mine(k):
                    yield {"kind": "measure", "basis": basis, "bell": b, "role": role}
                if role == "recv":
                    k += 1
                    if ctx.mine(k):
                        yield {"kind": "measure", "basis": basis, "bell": b, "role": role, "told_bases": False}


def _keep_history(ctx, case):
    from netqasm.sdk.epr_socket import EPRSocket
    var, hw, rounds, between = case["variant"], case["hardware"], case["rounds"], case["between"]
    n = len(rounds[0])
    es = EPRSocket("bob")
    reqs = [PlannedRequest("recv", "K", n, bells=b) for b in rounds]
    pipe = Pipe(epr_sockets=[es], link=LinkModel(reqs), max_qubits=n + 1, hardware="generic" if hw == "nvc" else hw,
                transpile=True if hw == "nvc" else None)
    ex = pipe.ex
    try:
        with pipe.conn as conn:
            for r, (bells, req) in enumerate(zip(rounds, reqs)):
                if r and "refused" in between:
                    # a request the SDK refuses (more pairs than the node has qubits), made with the expectation switched off
                    try:
                        es.recv_keep(n + 4, expect_phi_plus=False)
                        ctx.count("history_oversized_request_accepted")
                        return ctx.case(case, False)
                    except Exception:
                        ctx.count("history_requests_refused")
                if r and "registers" in between:
                    for _ in range(r + 1):
                        conn.builder.new_register(init_value=_ + 1)       # the application holds some registers of its own by now (values 1, 2, ..)
                qubits = (es.recv_keep(n) if var == "recv_keep" else es.recv_keep_with_info(n)[0])
                conn.flush()
                bad = []
                for i, q in enumerate(qubits):
                    ctx.count("kept_pairs_checked")
                    try:
                        st = ex.sv.pair_state(pipe.label_of(q), req.partners[i])
                    except Exception:
                        st = None
                    if st is None or rq.fidelity(st, rq.BELL[0]) < 1 - 1e-9:
                        bad.append(i)
                if bad:
                    ctx.fail(case, f"{var} x{n} hw={hw}, request {r} on one connection (between requests: {between}; Bell states {bells}): "
                                   f"pairs {bad} are not Phi+ with their partner")
                    return ctx.case(case, True)
                for q in qubits:
                    q.measure()
                conn.flush()
            ctx.count("multi_request_histories")
    except (hc.ControllerFault, hc.Deadlock, hc.StepLimit) as e:
        ctx.fail(case, f"{var} x{n} hw={hw}, several requests on one connection (between: {between}): controller run failed: {str(e)[:200]}")
    ctx.case(case, True)


def run_case(ctx, case):
    if case["kind"] == "keep-history":
        return _keep_history(ctx, case)
    if case["kind"] == "keep":
        _keep(ctx, case)
    else:
        _measure(ctx, case)


def _request(es, var, n, expect, post):
    if var == "recv_keep":
        return es.recv_keep(n, expect_phi_plus=expect), None
    if var == "recv_keep_post":
        return es.recv_keep(n, post_routine=post, sequential=False, expect_phi_plus=expect), None
    if var == "recv_keep_seq":
        return es.recv_keep(n, post_routine=post, sequential=True, expect_phi_plus=expect), None
    if var == "recv_keep_with_info":
        return es.recv_keep_with_info(n, expect_phi_plus=expect)
    if var == "recv_rsp":
        return es.recv_rsp(n, expect_phi_plus=expect), None
    if var == "recv_rsp_with_info":
        return es.recv_rsp_with_info(n, expect_phi_plus=expect)
    if var == "recv_keep_retry":
        return es.recv_keep(n, expect_phi_plus=expect, min_fidelity_all_at_end=80, max_tries=3), None
    if var == "recv_keep_seq_retry":
        return es.recv_keep(n, post_routine=post, sequential=True, expect_phi_plus=expect, min_fidelity_all_at_end=80, max_tries=3), None
    if var == "recv_keep_seq1":
        return es.recv_keep(1, sequential=True, expect_phi_plus=expect), None      # one pair, sequential, no post routine: an ordinary handle
    if var == "create_keep_seq1":
        return es.create_keep(1, sequential=True), None
    if var == "recv_rsp_retry":
        return es.recv_rsp(n, expect_phi_plus=expect, min_fidelity_all_at_end=80, max_tries=3), None
    if var == "create_keep_retry":
        return es.create_keep(n, min_fidelity_all_at_end=80, max_tries=3), None
    if var == "create_keep":
        return es.create_keep(n), None
    if var == "create_keep_with_info":
        return es.create_keep_with_info(n)
    if var == "create_keep_seq":
        return es.create_keep(n, post_routine=post, sequential=True), None
    # (the *_with_info entry points take the same post routine / sequential arguments)
    if var == "recv_keep_with_info_seq":
        return es.recv_keep_with_info(n, post_routine=post, sequential=True, expect_phi_plus=expect)
    if var == "create_keep_with_info_seq":
        return es.create_keep_with_info(n, post_routine=post, sequential=True)
    raise ValueError(var)


def _keep(ctx, case):
    from netqasm.sdk.epr_socket import EPRSocket
    from netqasm.sdk.qubit import Qubit
    var, bells, hw, others, expect = case["variant"], case["bells"], case["hardware"], case["others"], case["expect_phi_plus"]
    n = len(bells)
    role = "create" if var.startswith("create") else "recv"
    tp = "R" if "rsp" in var else "K"
    sequential = "_seq" in var and not var.endswith("_seq1")
    retry = var.endswith("_retry")
    nontrivial = any(b != 0 for b in bells)
    holes = case.get("holes", 0)
    budget = (n + others + 1 if not sequential else others + 2) + holes
    es = EPRSocket("bob")
    if retry:
        # first attempt is reported too slow (and delivers the *rotated* Bell states), the second one is in time
        first = PlannedRequest(role, tp, n, bells=[(b + 1) % 4 for b in bells],
                               fields=lambda k, name: 60000 if name == "goodness" else None)
        req = PlannedRequest(role, tp, n, bells=bells, fields=lambda k, name: 100 if name == "goodness" else None)
        link = LinkModel([first, req])
    else:
        req = PlannedRequest(role, tp, n, bells=bells)
        link = LinkModel([req], qlink10=bool(case.get("qlink10")))
    # ("nvc": the node is made an NV node by its compiler alone - compiler=NVSubroutineTranspiler with the default hardware config)
    pipe = Pipe(epr_sockets=[es], link=link, max_qubits=(n + others) if case.get("tight") else max(budget, 2),
                hardware="generic" if hw == "nvc" else hw, transpile=True if hw == "nvc" else None)
    if hw == "nvc":
        hw = "nv"
    ex = pipe.ex
    seq_results = []
    seen_meas = []

    def post(conn, q, pair):
        # sequential / post-routine use: nothing is done to the qubit; the state is inspected by the harness when
        # the *next* instruction executes (see on_step below) - here we only keep the pair alive or free it
        if sequential:
            q.free() if hasattr(q, "free") and False else q.measure(inplace=False)

    try:
        with pipe.conn as conn:
            spectators = []
            freed = [Qubit(conn) for _ in range(holes)]
            for j in range(others):
                q = Qubit(conn)
                spectators.append(q)
            conn.flush()
            for q in freed:
                q.free()
            if freed:
                conn.flush()
                ctx.count("requests_with_a_hole_below_a_live_qubit")
            for j, q in enumerate(spectators):
                pipe.set_state([q], OTHER_STATES[j])
            spect_labels = [pipe.label_of(q) for q in spectators]
            if sequential:
                # check each pair right before it is measured away: hook on the executor's measurement
                orig = ex._do_meas

                def spy(subroutine_id, q_address):
                    lab = ("p", ex._phys(subroutine_id, q_address))
                    seen_meas.append(lab)
                    # pairs of a discarded first attempt are measured away too: only the accepted attempt's pairs count
                    if retry and len(seen_meas) <= n:
                        return orig(subroutine_id=subroutine_id, q_address=q_address)
                    i = len(seq_results)
                    if i < len(req.partners):
                        st = ex.sv.pair_state(lab, req.partners[i])
                        seq_results.append(st)
                    return orig(subroutine_id=subroutine_id, q_address=q_address)
                ex._do_meas = spy
            try:
                qubits, _info = _request(es, var, n, expect, post)
                conn.flush()
            except (ValueError, AssertionError) as e:
                # build-time refusal by the SDK (e.g. NV placement assertion): not an emitted subroutine
                ctx.count("sdk_refusals")
                raise _Refused()
            # ---- oracle --------------------------------------------------------------------------------
            want_corrected = expect and role == "recv"
            if sequential:
                states = seq_results
                if len(states) != n:
                    ctx.fail(case, f"{n} pairs requested sequentially but {len(states)} were handed to the post routine")
                    raise _Done()
            else:
                states = []
                for i, q in enumerate(qubits):
                    try:
                        states.append(ex.sv.pair_state(pipe.label_of(q), req.partners[i]))
                    except Exception as e:
                        states.append(None)
            bad = []
            for i, st in enumerate(states):
                target = rq.BELL[0] if want_corrected else rq.BELL[bells[i]]
                ctx.count("kept_pairs_checked")
                if st is None or rq.fidelity(st, target) < 1 - 1e-9:
                    bad.append(i)
            spect_bad = []
            for j, q in enumerate(spectators):
                # (on NV the SDK may have relocated the spectator: follow the handle's current virtual ID)
                try:
                    lab = pipe.label_of(q)
                except Exception:
                    lab = None
                st = ex.sv.single_state(lab) if lab is not None and ex.sv.has(lab) else None
                if st is None or rq.fidelity(st, OTHER_STATES[j]) < 1 - 1e-9:
                    spect_bad.append(j)
            if bad or spect_bad:
                key = KF_RSP_RETRY if _rsp_retry_without_cleanup(pipe, var) else KF if _matches_known_mechanism(pipe, req, qubits, spectators, bells, hw, want_corrected, sequential, var, states,
                                                        first_bells=[(b + 1) % 4 for b in bells] if retry else ()) else None
                fid = [None if s is None else round(rq.fidelity(s, rq.BELL[0]), 6) for s in states]
                ctx.fail(case, f"{var} x{n} bells={bells} hw={hw} others={others} expect_phi_plus={expect}: pairs {bad} are not "
                               f"{'Phi+' if want_corrected else 'the delivered Bell state'} with their partner (Phi+ fidelities {fid})"
                               f"{'; unrelated qubits ' + str(spect_bad) + ' changed' if spect_bad else ''}", key=key)
            # no clean-up operations: what happens to handles afterwards is C09's subject; closing the connection
            # stops the application and clears its qubits
    except _Refused:
        return ctx.case(case, False)
    except _Done:
        return ctx.case(case, nontrivial)
    except (hc.ControllerFault, hc.Deadlock, hc.StepLimit) as e:
        key = None
        if isinstance(e, hc.Deadlock) and hw == "nv" and tp == "R" and n >= 2 and req.delivered >= 1:
            # known mechanism: on NV the receive side of remote state preparation pre-allocates the memory qubits and
            # lists them as targets of the pairs, so the first keep-response is deferred forever (its target is "in use")
            # signature: every pair was delivered and none could be consumed
            if req.delivered == n and len(ex._pending_epr_responses) == n:
                key = KF_RSP_NV
        if _rsp_retry_without_cleanup(pipe, var):
            key = KF_RSP_RETRY
        ctx.fail(case, f"{var} x{n} bells={bells} hw={hw} others={others}: controller run failed: {e}", key=key)
        return ctx.case(case, nontrivial)
    ctx.case(case, nontrivial)


def _rsp_retry_without_cleanup(pipe, var):
    """Known mechanism: the retry loop the SDK builds around recv_rsp(min_fidelity_all_at_end=..) neither undefines the result
    array nor frees the qubits between attempts (recv_keep's loop does both): the emitted loop contains no `undef`."""
    if var != "recv_rsp_retry":
        return False
    subs = pipe.conn.subroutines
    return bool(subs) and not any(getattr(i, "mnemonic", "") == "undef" for i in subs[-1].instructions)


class _Refused(Exception):
    pass


class _Done(Exception):
    pass


def _matches_known_mechanism(pipe, req, qubits, spectators, bells, hw, want_corrected, sequential, var, states_seen, first_bells=()):
    """Prediction of the one known mechanism: on generic hardware, receive role, all-pairs-at-once corrections, pair i's
    Pauli is applied to virtual qubit 0 instead of pair i's qubit. The observed global state must EQUAL that prediction."""
    if hw != "generic" or not want_corrected:
        return False
    ex = pipe.ex
    app = pipe.app_id
    um = ex._qubit_unit_modules[app]
    if um[0] is None:
        return False
    # rebuild the predicted state: spectators in their states, pairs in |b_i>, then Paulis of every pair on virtual 0
    sv = rq.StateVec()
    for j, q in enumerate(spectators):
        sv.add(pipe.label_of(q), OTHER_STATES[j])
    if sequential:
        return _matches_known_sequential(pipe, req, bells, spectators, states_seen, first_bells)
    for i, q in enumerate(qubits):
        sv.add_pair(pipe.label_of(q), req.partners[i], rq.BELL[bells[i]])
    v0 = ("p", um[0])
    if not sv.has(v0):
        return False
    if first_bells and not any(q.qubit_id == 0 for q in spectators):
        first_bells = ()   # the Paulis of a discarded attempt only matter when they hit a qubit that survives (a spectator on ID 0)
    for b in list(first_bells) + list(bells):
        for g in PAULI_FOR_BELL[b]:
            sv.apply1(v0, rq.X if g == "x" else rq.Z)
    have = ex.sv.copy()
    for lab in list(have.labels):
        if lab not in sv.labels and lab[0] == "partner":
            # partner of a pair whose local half was freed by a discarded attempt: collapsed, unentangled
            if have.single_state(lab) is None:
                return False
            have.remove(lab, 0 if have.prob1(lab) < 0.5 else 1)
    try:
        got = have.vector(sv.labels)
    except AssertionError:
        return False
    return rq.eq_up_to_phase(got, sv.vector(sv.labels), 1e-8)


def _matches_known_sequential(pipe, req, bells, spectators, states_seen, first_bells=()):
    """Sequential use: every pair arrives on the same virtual ID v != 0 (ID 0 is held by a spectator), the pair's Pauli
    goes to virtual 0. Prediction: each pair was handed to the post routine exactly in its delivered Bell state, the
    spectator on ID 0 carries the product of all the Paulis, every other spectator is untouched."""
    ex = pipe.ex
    if not spectators:
        return False
    if len(states_seen) != len(bells):
        return False
    for st, b in zip(states_seen, bells):
        if st is None or rq.fidelity(st, rq.BELL[b]) < 1 - 1e-9:
            return False
    for j, q in enumerate(spectators):
        lab = pipe.label_of(q)
        st = ex.sv.single_state(lab) if ex.sv.has(lab) else None
        if st is None:
            return False
        want = OTHER_STATES[j]
        if q.qubit_id == 0:
            for b in list(first_bells) + list(bells):
                for g in PAULI_FOR_BELL[b]:
                    want = (rq.X if g == "x" else rq.Z) @ want
        if rq.fidelity(st, want) < 1 - 1e-9:
            return False
    return any(q.qubit_id == 0 for q in spectators)


# ---- measure directly -------------------------------------------------------------------------------------------

BASIS_ROT = {"X": (0, 24, 0), "Y": (8, 0, 0), "Z": (0, 0, 0), "MX": (0, 8, 0), "MY": (24, 0, 0), "MZ": (16, 0, 0)}


def joint_distribution(bell, rot_local, rot_remote):
    """P(m_local, m_remote) for measuring |bell> after X-Y-X rotations (multiples of pi/16) on each side."""
    def u(r):
        return rq.rot("x", rq.angle_nd(r[2], 4)) @ rq.rot("y", rq.angle_nd(r[1], 4)) @ rq.rot("x", rq.angle_nd(r[0], 4))
    st = np.kron(u(rot_local), u(rot_remote)) @ rq.BELL[bell]
    p = np.abs(st) ** 2
    return {(a, b): float(p[2 * a + b]) for a in (0, 1) for b in (0, 1)}


def _measure(ctx, case):
    from netqasm.sdk.build_epr import EprMeasBasis
    from netqasm.sdk.epr_socket import EPRSocket
    basis, b, role = case["basis"], case["bell"], case["role"]
    rot = BASIS_ROT[basis]
    processed = {}
    for raw in (0, 1):
        es = EPRSocket("bob")
        req = PlannedRequest(role, "M", 1, bells=[b], outcomes=[raw])
        link = LinkModel([req])
        pipe = Pipe(epr_sockets=[es], link=link)
        try:
            with pipe.conn as conn:
                if role == "recv":
                    res = es.recv_measure(1)
                    if case.get("told_bases", True):
                        # the receiving application is told the bases by the creator and enters them in the result object
                        res[0].measurement_basis_local = rot
                        res[0].measurement_basis_remote = rot
                else:
                    res = es.create_measure(1, basis_local=EprMeasBasis[basis], basis_remote=EprMeasBasis[basis])
                conn.flush()
                processed[raw] = res[0].measurement_outcome
        except (hc.ControllerFault, hc.Deadlock, hc.StepLimit) as e:
            ctx.fail(case, f"measure-directly run failed: {e}")
            return ctx.case(case, b != 0)
    ctx.count("measure_distributions_checked")
    # distribution of (processed local outcome, remote outcome) when |b> was delivered
    pb = joint_distribution(b, rot, rot)
    got = {}
    for (ml, mr), p in pb.items():
        key = (processed[ml], mr)
        got[key] = got.get(key, 0.0) + p
    if role == "recv":
        want = joint_distribution(0, rot, rot)
        if any(abs(got.get(k, 0.0) - want[k]) > 1e-9 for k in want):
            # known mechanism: recv_measure() has no basis argument and the SDK never reads the measurement basis reported in the
            # response, so the result object post-processes with the Z-basis rule unless the application overwrites its bases
            key = KF_RECV_BASIS if (not case.get("told_bases", True) and basis not in ("Z", "MZ")) else None
            ctx.fail(case, f"recv_measure basis {basis}, delivered Bell state {b}: post-processed outcomes have joint statistics "
                           f"{ {k: round(v, 3) for k, v in sorted(got.items())} } instead of Phi+'s { {k: round(v, 3) for k, v in sorted(want.items())} }", key=key)
    else:
        if processed != {0: 0, 1: 1}:
            ctx.fail(case, f"create_measure basis {basis}, Bell state {b}: the creator's outcome was altered ({processed}); nothing may be corrected on the creating side")
    ctx.case(case, b != 0)
