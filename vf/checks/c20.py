"""C20 — toolbox circuits implement their documented operators (L3 pipeline on the state-vector backend)."""
from __future__ import annotations

import cmath
import itertools
import math

import numpy as np

from vf.harness.pipeline import Pipe
from vf.ref import quantum as rq

PID = "C20"
LEVEL = "exploration"
RULE = ("toffoli_gate and t_inverse: full unitary (register entangled with reference qubits) for every assignment of "
        "roles to 3 qubits, vanilla and NV-transpiled pipelines; set_qubit_state for grid + random (theta, phi) incl. "
        "negative and > 2pi; parity_meas for ALL Pauli strings over I,X,Y,Z of length 1..3 with and without leading "
        "minus on computational-basis, stabiliser and random input states, BOTH outcome branches of the measurement "
        "explored with the backend's probabilities (exact distribution), returned value and post-measurement state "
        "compared with the projector semantics; every string also once on qubits whose virtual ids differ from their list positions (a bystander first, reversed list, a freed first qubit)."
        ' Sessions: 2-3 applications come and go on one long-lived controller (closing while holding qubits, ids handed out again) and use toffoli_gate / parity_meas over Z,I strings / set_qubit_state(0|pi) / t_inverse on computational-basis registers; returned values and the reduced state of each application are compared with the classical prediction after every flush. '
        "Non-trivial = every case; distinct = distinct case description.")
ASSUMPTIONS = ["outcome 0 of a parity measurement denotes eigenvalue +1 of the (signed) Pauli string",
               "state preparation fidelity threshold 1 - 1e-7 (rotation steps are approximated to 1e-4 rad)"]
SHARDS = {"quick": 4, "thorough": 16}
MIN_COUNTERS = {"parity_branches": 200, "toffoli_unitaries": 2, "state_preps": 20}
WALL_BUDGET = {"quick": 200, "thorough": 2400}

KF_ELECTRON = "nv-transpile:carbon-carbon-gate-needs-allocated-electron"
PAULI = {"I": rq.I2, "X": rq.X, "Y": rq.Y, "Z": rq.Z}


def kron_all(ms):
    out = np.array([[1]], dtype=complex)
    for m in ms:
        out = np.kron(out, m)
    return out


def input_states(rng, n, how_many_random):
    sts = []
    for b in range(2 ** n):
        v = np.zeros(2 ** n, dtype=complex)
        v[b] = 1
        sts.append(("basis", b, v))
    singles = {"0": [1, 0], "1": [0, 1], "+": [rq.SQ, rq.SQ], "-": [rq.SQ, -rq.SQ], "i": [rq.SQ, 1j * rq.SQ], "j": [rq.SQ, -1j * rq.SQ]}
    names = list(singles)
    for _ in range(6):
        pick = [rng.choice(names) for _ in range(n)]
        sts.append(("stab", "".join(pick), kron_all([np.array(singles[p], dtype=complex).reshape(2, 1) for p in pick]).reshape(-1)))
    if n >= 2:
        ghz = np.zeros(2 ** n, dtype=complex)
        ghz[0] = ghz[-1] = rq.SQ
        sts.append(("ghz", n, ghz))
    for i in range(how_many_random):
        sts.append(("random", i, rq.random_state(rng, n)))
    return sts


def cases(ctx):
    rng = ctx.rng
    k = 0

    def mine():
        nonlocal k
        k += 1
        return ctx.mine(k)
    for hw in ("generic", "nv"):
        for perm in itertools.permutations(range(3)):
            if mine():
                yield {"kind": "toffoli", "hardware": hw, "roles": list(perm)}
        if mine():
            yield {"kind": "t_inverse", "hardware": hw}
    grid = [0.0, math.pi / 2, math.pi, 1.0, -1.0, 2 * math.pi + 0.5, 3.0, 0.3]
    for th in grid:
        for ph in grid:
            if mine():
                yield {"kind": "prep", "theta": th, "phi": ph}
    # angles a computation leaves next to zero or to a full turn (0.3 - 0.1 - 0.2 is -2.8e-17)
    tiny = [0.3 - 0.1 - 0.2, -1e-20, -0.0, 1e-17, 2 * math.pi - 1e-15, -2 * math.pi, 4 * math.pi + 1e-16]
    for th in tiny:
        for ph in (0.0, tiny[0], 1.0):
            if mine():
                yield {"kind": "prep", "theta": th, "phi": ph}
    for ph in tiny:
        if mine():
            yield {"kind": "prep", "theta": 1.0, "phi": ph}
    for _ in range(ctx.n(30, 10000) * ctx.nshards):
        if mine():
            yield {"kind": "prep", "theta": rng.uniform(-7, 7), "phi": rng.uniform(-7, 7)}
    for _ in range(ctx.n(40, 40000)):
        yield {"kind": "session", "hardware": rng.choice(["generic", "generic", "nv"]), "slots": rng.choice([2, 2, 3]),
               "steps": rng.choice([20, 40, 60]), "seed": rng.randrange(2**31)}
    # several parity measurements of one application, each sent in its own subroutine, all results read at the very end
    for bits in ([1, 0, 1], [0, 1, 1], [1, 1, 0], [1, 0], [0, 1]):
        for hw in ("generic", "nv"):
            if mine():
                n_ = len(bits)
                strs = []
                for _ in range(6):
                    letters = [rng.choice("ZZI") for _ in range(n_)]
                    if all(c == "I" for c in letters):
                        letters[0] = "Z"
                    strs.append(("-" if rng.random() < 0.3 else "") + "".join(letters))
                # (always among them: two ancilla-based measurements in a row with different results)
                fixed = ["ZZI"[:n_] if n_ == 3 else "ZZ", "-" + ("ZZI"[:n_] if n_ == 3 else "ZZ")]
                yield {"kind": "parity-sequence", "bits": bits, "hardware": hw, "strings": fixed + strs}
            if mine():
                yield {"kind": "parity-sequence", "bits": bits, "hardware": hw, "strings": ["Z" + "I" * (len(bits) - 1), "Z" * len(bits)],
                       "fresh_zero": True}
            if mine() and hw == "generic":
                yield {"kind": "parity-sequence", "bits": bits, "hardware": hw, "strings": ["Z" * len(bits), "Z" + "I" * (len(bits) - 1), "-" + "Z" * len(bits)],
                       "refused_first": True}
            if mine() and hw == "generic":
                yield {"kind": "parity-sequence", "bits": bits, "hardware": hw, "strings": ["Z" + "I" * (len(bits) - 1), "I" * (len(bits) - 1) + "Z", "-Z" + "I" * (len(bits) - 1)],
                       "read_after_successor": True}
            if mine():
                # ... and many measurements queued in ONE subroutine (single-letter strings measure the qubit itself, in place)
                n_ = len(bits)
                single = ["".join("Z" if j == i % n_ else "I" for j in range(n_)) for i in range(20)]
                yield {"kind": "parity-sequence", "bits": bits, "hardware": hw, "strings": single + ["Z" * n_, "-" + "Z" * n_], "one_subroutine": True}
    nrand = 2 if ctx.quick else 12
    for n in (1, 2, 3):
        for letters in itertools.product("IXYZ", repeat=n):
            for neg in (False, True):
                bases = ("-" if neg else "") + "".join(letters)
                sts = input_states(rng, n, nrand)
                if ctx.quick:
                    sts = sts[: 2 ** n][:4] + sts[2 ** n:][:5]
                for kind, tag, vec in sts:
                    if mine():
                        yield {"kind": "parity", "bases": bases, "state": [kind, tag],
                               "vec": [[float(z.real), float(z.imag)] for z in vec]}
                # ... and with qubits whose virtual ids are NOT their positions in the list: a bystander allocated first, the list
                # in reverse allocation order, a first qubit that was given back (the ancilla then takes id 0)
                lay = rng.choice(["bystander", "reversed", "gap"])
                kind, tag, vec = sts[rng.randrange(len(sts))]
                if mine():
                    yield {"kind": "parity", "bases": bases, "state": [kind, tag], "layout": lay,
                           "vec": [[float(z.real), float(z.imag)] for z in vec]}


def _session(ctx, case):
    """Several host applications come and go on ONE long-lived controller and use the toolbox on computational-basis
    registers (so every result is known classically): Toffoli = AND into the target, parity_meas over Z/I strings = parity of
    the bits, set_qubit_state(theta = pi) = bit flip from |0>, t_inverse = no change of the bits.  After every flush the
    application's qubits must be in exactly the expected basis state; applications must not see each other."""
    import random
    from netqasm.sdk.qubit import Qubit
    from netqasm.sdk.toolbox import parity_meas, set_qubit_state, t_inverse, toffoli_gate
    r = random.Random(case["seed"])
    # generic hardware: exactly three data qubits plus the ancilla of parity_meas fit; NV keeps a spare position for relocations
    p = Pipe(hardware=case["hardware"], max_qubits=4 if case["hardware"] == "generic" else 5, script=[], default_outcome=0)
    p.conn.close()           # the first application comes and goes at once: the controller is now "used"
    slots = {}               # slot -> {"conn", "qs": [Qubit], "bits": [int], "pending": [(handle, expected, what)]}
    nslots = case["slots"]
    log = []

    def check_flush(k):
        sl = slots[k]
        sl["conn"].flush()
        ctx.count("session_flushes")
        for h, want, what in sl["pending"]:
            got = int(h)
            ctx.count("session_results_checked")
            if got != want:
                raise _SessionFail(f"{what} of application slot {k} (app id {sl['conn'].app_id}) returned {got}, expected {want}")
        sl["pending"] = []
        if sl["qs"]:
            vec = p.state_in(sl["conn"], sl["qs"])
            idx = int("".join(map(str, sl["bits"])), 2)
            want = np.zeros(2 ** len(sl["qs"]), dtype=complex)
            want[idx] = 1
            if vec is None:
                raise _SessionFail(f"after a flush the qubits of application slot {k} (app id {sl['conn'].app_id}) are entangled with qubits of another application")
            if not rq.eq_up_to_phase(vec, want, 1e-7):
                raise _SessionFail(f"after a flush the qubits of application slot {k} (app id {sl['conn'].app_id}) are not in |{''.join(map(str, sl['bits']))}> "
                                   f"(overlap {rq.fidelity(vec, want):.4f})")
    late = []

    def read_late():
        pend, app_id = late.pop(0)
        for h, want, what in pend:
            got = int(h)
            ctx.count("session_results_read_after_their_connection_closed")
            if got != want:
                raise _SessionFail(f"{what} of an application (app id {app_id}) that has closed its connection meanwhile, read late: "
                                   f"returned {got}, expected {want}")
    try:
        for step in range(case["steps"]):
            k = r.randrange(nslots)
            sl = slots.get(k)
            if sl is None:
                slots[k] = {"conn": p.open(), "qs": [], "bits": [], "pending": []}
                log.append(("open", k, slots[k]["conn"].app_id))
                ctx.count("session_applications_opened")
                continue
            conn, qs, bits = sl["conn"], sl["qs"], sl["bits"]
            if len(qs) < 3 and r.random() < 0.5:
                op = r.choice(["alloc", "alloc", "prep"])
            elif len(qs) == 3 and r.random() < 0.45:
                op = "toffoli"
            else:
                op = r.choice(["parity", "parity", "tinv", "flush", "flush", "flush_only", "measure", "measure1", "measure1", "close"])
            log.append((op, k))
            if op == "alloc" and len(qs) < 3:
                q = Qubit(conn)
                b = r.randrange(2)
                if b:
                    q.X()
                qs.append(q)
                bits.append(b)
            elif op == "toffoli" and len(qs) == 3:
                c1, c2, t = r.sample(range(3), 3)
                toffoli_gate(qs[c1], qs[c2], qs[t])
                bits[t] ^= bits[c1] & bits[c2]
                ctx.count("session_toffolis")
            elif op == "parity" and qs:
                letters = [r.choice("ZZI") for _ in qs]
                if all(c == "I" for c in letters):
                    letters[0] = "Z"
                neg = r.random() < 0.3
                m = parity_meas(qs, ("-" if neg else "") + "".join(letters))
                want = (sum(b for b, c in zip(bits, letters) if c == "Z") + (1 if neg else 0)) % 2
                sl["pending"].append((m, want, f"parity_meas({'-' if neg else ''}{''.join(letters)}) on |{''.join(map(str, bits))}>"))
                ctx.count("session_parity_measurements")
            elif op == "prep" and len(qs) < 3:
                q = Qubit(conn)
                b = r.randrange(2)
                set_qubit_state(q, phi=0.0, theta=math.pi * b)
                qs.append(q)
                bits.append(b)
            elif op == "tinv" and qs:
                t_inverse(r.choice(qs))
            elif op == "flush":
                check_flush(k)
            elif op == "flush_only":
                # the application sends what it has queued and reads the results later (after a later flush): results of an
                # earlier subroutine stay what they were
                conn.flush()
                ctx.count("session_flushes_with_results_read_later")
            elif op == "measure1" and qs:
                # one qubit leaves: the others keep their ids, a hole opens below or between them
                j = r.randrange(len(qs))
                sl["pending"].append((qs[j].measure(), bits[j], f"measurement of a qubit in |{bits[j]}>"))
                del qs[j], bits[j]
                check_flush(k)
            elif op == "measure" and qs:
                for q, b in zip(qs, bits):
                    sl["pending"].append((q.measure(), b, f"measurement of a qubit in |{b}>"))
                sl["qs"], sl["bits"] = [], []
                check_flush(k)
            elif op == "close":
                if r.random() < 0.5 and qs:
                    check_flush(k)
                elif sl["pending"] and r.random() < 0.6:
                    # the application sends what it has queued, closes, and looks at the results only LATER - when another
                    # application (perhaps one that was given the same id) is running on the controller
                    conn.flush()
                    late.append((list(sl["pending"]), conn.app_id))
                    sl["pending"] = []
                    ctx.count("session_results_left_unread_at_close")
                conn.close()          # possibly while still holding qubits: the controller releases them
                ctx.count("session_applications_closed_holding_qubits" if qs else "session_applications_closed")
                del slots[k]
            if late and r.random() < 0.3 and any(v["conn"].app_id == late[0][1] for v in slots.values()):
                read_late()
        for k in list(slots):
            check_flush(k)
            if late:
                read_late()
            slots[k]["conn"].close()
        while late:
            read_late()
    except _SessionFail as e:
        ctx.fail(case, f"{case['hardware']} hardware, history {log[-12:]}: {e}")
    except Exception as e:
        key = None
        holds0 = any(getattr(q, "qubit_id", None) == 0 for q in (slots.get(k) or {}).get("qs", []))
        if case["hardware"] == "nv" and "NotAllocatedError" in str(e) and "The qubit with address 0 was not allocated" in str(e) and not holds0:
            key = KF_ELECTRON      # the NV expansion of a gate between memory qubits borrows the electron, which nobody holds
            # (an application whose handle SAYS id 0 and whose qubit is not there is another matter)
        ctx.fail(case, f"{case['hardware']} hardware, history {log[-12:]}: {type(e).__name__}: {str(e)[:200]}", key=key)


class _SessionFail(Exception):
    pass


def _parity_sequence(ctx, case):
    """One application, a computational-basis register, a list of Z/I parity measurements: each is sent in its own subroutine
    (flush after each), and the application reads ALL the results only after the last flush."""
    from netqasm.sdk.qubit import Qubit
    from netqasm.sdk.toolbox import parity_meas
    bits, strings = case["bits"], case["strings"]
    p = Pipe(hardware=case["hardware"], max_qubits=len(bits) + 2, script=[], default_outcome=0)
    qs = []
    bits = list(bits)
    try:
        with p.conn as conn:
            for b in bits:
                q = Qubit(conn)
                if b:
                    q.X()
                qs.append(q)
            handles = []
            if case.get("refused_first"):
                # the application first passes a handle it has already measured away: the call is refused - and leaves nothing of its
                # circuit (an ancilla, basis changes, half of the CNOTs) behind for the calls that follow
                from netqasm.sdk.toolbox import toffoli_gate
                dead = Qubit(conn)
                dead.measure()
                for attempt in (lambda: parity_meas([qs[0], dead] + qs[2:], "X" * len(qs)), lambda: parity_meas(qs[:-1] + [dead], "-" + "Y" * len(qs)),
                                lambda: toffoli_gate(qs[0], dead, qs[-1])):
                    try:
                        attempt()
                        ctx.fail(case, f"{case['hardware']}: a toolbox call with a measured-away qubit handle was accepted")
                    except Exception:
                        ctx.count("toolbox_calls_refused_for_a_dead_handle")
            if case.get("fresh_zero"):
                # the qubit on the lowest id is measured away and a fresh one takes its place; with nothing in between, a one-letter
                # parity measurement of ANOTHER qubit follows (on NV that measurement needs the fresh qubit's place), then the
                # fresh qubit is used
                bits = list(bits)
                gone = qs[0].measure()
                conn.flush()
                if int(gone) != bits[0]:
                    ctx.fail(case, f"{case['hardware']}: measurement of a qubit in |{bits[0]}> returned {int(gone)}")
                qs[0] = Qubit(conn)
                first = parity_meas(qs, "I" + "Z" + "I" * (len(bits) - 2))
                qs[0].X()
                bits[0] = 1
                conn.flush()
                if int(first) != bits[1]:
                    ctx.fail(case, f"{case['hardware']}: one-letter parity measurement right after a fresh allocation returned {int(first)} on |{bits[1]}>")
                ctx.count("parity_right_after_fresh_allocation")
            for st in strings:
                handles.append(parity_meas(qs, st))
                if not case.get("one_subroutine"):
                    conn.flush()
            conn.flush()
            want = [(sum(b for b, c in zip(bits, st.lstrip("-")) if c == "Z") + (1 if st.startswith("-") else 0)) % 2 for st in strings]
            if case.get("read_after_successor"):
                # the application closes without having looked at its results; its successor on the controller (which is handed
                # the same application id) runs a few parity measurements of its own with other outcomes; only then are the first
                # application's results read
                for q in qs:
                    q.measure()
                conn.close()
                succ = p.open()
                ctx.count("results_read_while_a_successor_with_the_same_id_runs", int(succ.app_id == conn.app_id))
                sq = [Qubit(succ) for _ in bits]
                for q, b in zip(sq, bits):
                    if not b:
                        q.X()           # (the complementary register: every parity of an odd-weight string differs)
                mine_ = [parity_meas(sq, st) for st in strings]
                succ.flush()
                [int(h) for h in mine_]
            got = [int(h) for h in handles]
            ctx.count("parity_results_read_after_later_flushes", len(got))
            if got != want:
                j = next(i for i in range(len(got)) if got[i] != want[i])
                ctx.fail(case, f"{case['hardware']}: parity_meas of {strings} on |{''.join(map(str, bits))}>, one subroutine each, results read "
                               f"after the last flush: result {j} ({strings[j]}) reads {got[j]}, the parity is {want[j]} (all: {got} vs {want})")
    except Exception as e:
        key = None
        holds0 = any(getattr(q, "qubit_id", None) == 0 for q in qs)
        if case["hardware"] == "nv" and "NotAllocatedError" in str(e) and "The qubit with address 0 was not allocated" in str(e) and not holds0:
            key = KF_ELECTRON
        ctx.fail(case, f"{case['hardware']}: parity_meas of {strings} on |{''.join(map(str, bits))}>: {type(e).__name__}: {str(e)[:200]}", key=key)
    ctx.case(case, True)


def run_case(ctx, case):
    kind = case["kind"]
    if kind == "parity-sequence":
        return _parity_sequence(ctx, case)
    if kind == "session":
        _session(ctx, case)
    elif kind == "toffoli":
        _toffoli(ctx, case)
    elif kind == "t_inverse":
        _tinv(ctx, case)
    elif kind == "prep":
        _prep(ctx, case)
    elif kind == "parity":
        _parity(ctx, case)
    ctx.case(case, True)


def _choi(n):
    dim = 2 ** n
    return (np.eye(dim, dtype=complex) / math.sqrt(dim)).reshape(-1)


def _toffoli(ctx, case):
    from netqasm.sdk.qubit import Qubit
    from netqasm.sdk.toolbox import toffoli_gate
    p = Pipe(hardware=case["hardware"], max_qubits=5)
    with p.conn as conn:
        qs = [Qubit(conn) for _ in range(3)]
        conn.flush()
        p.set_state(qs, _choi(3), refs=3)
        c1, c2, t = (qs[i] for i in case["roles"])
        toffoli_gate(c1, c2, t)
        conn.flush()
        got = p.state_of(qs, refs=3)
        # ideal: Toffoli with the same roles
        sv = rq.StateVec()
        sv.labels = [0, 1, 2, "r0", "r1", "r2"]
        sv.t = _choi(3).reshape((2,) * 6)
        r = case["roles"]
        u = rq.TOFFOLI.reshape((2,) * 6)
        tt = np.tensordot(u, sv.t, axes=([3, 4, 5], [r[0], r[1], r[2]]))
        sv.t = np.moveaxis(tt, [0, 1, 2], [r[0], r[1], r[2]])
        want = sv.vector([0, 1, 2, "r0", "r1", "r2"])
        ctx.count("toffoli_unitaries")
        if not rq.eq_up_to_phase(got, want, 1e-8):
            ctx.fail(case, f"toffoli_gate(controls {r[0]},{r[1]}; target {r[2]}) on {case['hardware']} hardware is not the Toffoli "
                           f"unitary (overlap {rq.fidelity(got, want):.6f})")
        for q in qs:
            q.measure()


def _tinv(ctx, case):
    from netqasm.sdk.qubit import Qubit
    from netqasm.sdk.toolbox import t_inverse
    p = Pipe(hardware=case["hardware"], max_qubits=3)
    with p.conn as conn:
        q = Qubit(conn)
        conn.flush()
        p.set_state([q], _choi(1), refs=1)
        t_inverse(q)
        conn.flush()
        got = p.state_of([q], refs=1)
        want = (np.kron(rq.T.conj().T, rq.I2) @ _choi(1))
        ctx.count("toffoli_unitaries")
        if not rq.eq_up_to_phase(got, want, 1e-8):
            ctx.fail(case, f"t_inverse on {case['hardware']} hardware is not the adjoint of T")
        q.measure()


def _prep(ctx, case):
    from netqasm.sdk.qubit import Qubit
    from netqasm.sdk.toolbox import set_qubit_state
    th, ph = case["theta"], case["phi"]
    ctx.count("state_prep_cases")
    if ctx.counters["state_prep_cases"] % 2 == 0:
        # the application has looked at a coarse decomposition of the same angles before (public helper, loose tolerance)
        from netqasm.sdk.toolbox.state_prep import get_angle_spec_from_float
        get_angle_spec_from_float(th, 0.05)
        get_angle_spec_from_float(ph, tol=0.02)
        ctx.count("state_preps_after_a_coarse_look_at_the_angles")
    p = Pipe(max_qubits=2)
    with p.conn as conn:
        q = Qubit(conn)
        try:
            set_qubit_state(q, phi=ph, theta=th)
            conn.flush()
        except Exception as e:
            ctx.fail(case, f"set_qubit_state(theta={th}, phi={ph}) failed: {type(e).__name__}: {str(e)[:120]}")
            return
        got = p.state_of([q])
        want = np.array([math.cos(th / 2), cmath.exp(1j * ph) * math.sin(th / 2)])
        ctx.count("state_preps")
        f = rq.fidelity(got, want)
        if f < 1 - 1e-7:
            ctx.fail(case, f"set_qubit_state(theta={th}, phi={ph}) prepares a state with fidelity {f:.9f}")
        q.measure()


def _parity(ctx, case):
    from netqasm.sdk.qubit import Qubit
    from netqasm.sdk.toolbox import parity_meas
    bases = case["bases"]
    neg = bases.startswith("-")
    letters = bases[1:] if neg else bases
    n = len(letters)
    vec = np.array([complex(a, b) for a, b in case["vec"]])
    P = kron_all([PAULI[c] for c in letters])
    sign = -1 if neg else 1
    total_p = 0.0
    seen = set()
    for branch in (0, 1):
        p = Pipe(script=[branch], max_qubits=5)
        with p.conn as conn:
            lay = case.get("layout")
            extra = [Qubit(conn)] if lay in ("bystander", "gap") else []
            qs = [Qubit(conn) for _ in range(n)]
            if lay == "reversed":
                qs = qs[::-1]
            if lay == "gap":
                extra.pop().free()
            if lay:
                ctx.count("parity_on_qubits_whose_ids_are_not_their_positions")
            conn.flush()
            p.set_state(qs, vec)
            n_meas0 = len(p.script.log)
            m = parity_meas(qs, bases)
            conn.flush()
            value = m if isinstance(m, int) else int(m)
            log = p.script.log[n_meas0:]
            for e_ in extra:
                e_.free()           # (the bystander, still |0>, is given back before the state of the list is read)
            if extra:
                conn.flush()
            got = p.state_of(qs)
            for q in qs:
                q.measure()
        free = [(p1, o) for (p1, o, forced) in log if not forced]
        key = tuple(o for _, o in free)
        if key in seen:
            continue  # the measurement was deterministic: both scripts give the same run
        seen.add(key)
        w = 1.0
        for p1, o in free:
            w *= p1 if o == 1 else 1 - p1
        total_p += w
        ctx.count("parity_branches")
        # projector semantics: returned value v denotes eigenvalue (-1)^v of sign*P
        eig = (-1) ** value
        proj = (np.eye(2 ** n) + eig * sign * P) / 2
        pv = proj @ vec
        pr = float(np.vdot(pv, pv).real)
        if all(c == "I" for c in letters):
            # trivial measurement: value 0 (1 with a leading minus), state untouched
            if value != (1 if neg else 0) or not rq.eq_up_to_phase(got, vec, 1e-8):
                ctx.fail(case, f"parity_meas({bases}): trivial string returned {value} / changed the state")
            return
        if abs(pr - w) > 1e-8:
            ctx.fail(case, f"parity_meas({bases}) on {case['state']}: returned {value} with probability {w:.6f}, projector gives {pr:.6f}")
            return
        if pr > 1e-12 and not rq.eq_up_to_phase(got, pv / math.sqrt(pr), 1e-8):
            ctx.fail(case, f"parity_meas({bases}) on {case['state']}: post-measurement state for returned value {value} is not the "
                           f"projection onto the {'+' if eig * sign > 0 else '-'}1 eigenspace (fidelity {rq.fidelity(got, pv / math.sqrt(pr)):.6f})")
            return
    if abs(total_p - 1) > 1e-8:
        ctx.fail(case, f"parity_meas({bases}) on {case['state']}: explored outcome branches carry total probability {total_p:.6f}")
