"""C01 — binary subroutine codec is lossless and uniquely decodable per flavour (L1 codec harness).

Oracle: round trip through the repository's own bytes()/deserialize() observed on generated
subroutines + structural postcondition (icontract) on Flavour.__init__.
"""
from __future__ import annotations

import copy
import json

from vf.harness import codec
from vf.ref import isa

PID = "C01"
LEVEL = "exploration"
RULE = ("cases: (a) per flavour the opcode/mnemonic tables built by Flavour.__init__ (icontract postcondition); "
        "(b) per flavour x instruction class x operand field position: a sweep over ALL values of that field "
        "(64 registers / 256 immediates / 90 boundary+walking-one int32 values) with the other fields random; "
        "(c) header sweeps (app ids, version bytes); (d) random instruction sequences of length 0..64 (3%: up to ~10000, at block boundaries) mixing all "
        "classes. Each is encoded with bytes(Subroutine) and decoded with deserialize(.., flavour). A case is "
        "non-trivial when it encodes at least one instruction with at least one operand; distinct = distinct case "
        "descriptions (hash of canonical JSON)."
        ' After every round trip the decoded instructions are edited in place (as the NV transpiler edits what it is handed) and the unchanged bytes are decoded again with both decoders; an operand of the encoded Subroutine is edited in place (same instruction count) and it is encoded again. ')
ASSUMPTIONS = [
    "operand values are sampled at boundaries and at random for 32-bit fields, enumerated for registers and 8-bit immediates",
    "instruction classes are discovered from the working tree (CORE_INSTRUCTIONS + flavour.instrs); classes defined but registered in no flavour are only reported",
    "field layout per mnemonic comes from the frozen table vf/ref/isa.py; a class without a table entry is counted as unreferenced and exercised with the operand shape of its base class when derivable",
]
SHARDS = {"quick": 1, "thorough": 16}
MIN_COUNTERS = {"roundtrips": 1000, "flavour_postconditions": 3}

_state = {}


class TableBroken(Exception):
    pass


_EDITS = [0]


def setup(ctx):
    import icontract
    from netqasm.lang.instr import flavour as fl

    if not _state.get("contract"):
        orig = fl.Flavour.__init__

        def tables_complete(self, flavour_specific):
            ctx_ = _state["ctx"]
            ctx_.count("flavour_postconditions")
            classes = list(fl.CORE_INSTRUCTIONS) + list(flavour_specific)
            ok = len(self.id_map) == len(classes) and len(self.name_map) == len(classes)
            for c in classes:
                ok = ok and self.id_map.get(c.id) is c and self.name_map.get(c.mnemonic) is c
            if not ok:
                # record and let construction continue: the 'tables' case reports it with a witness
                _state.setdefault("table_violations", {})[type(self).__name__] = (
                    f"{type(self).__name__}: {len(classes)} classes but {len(self.id_map)} opcodes / "
                    f"{len(self.name_map)} mnemonics in the tables")
            return True

        wrapped = icontract.ensure(tables_complete, error=TableBroken)(orig)
        fl.Flavour.__init__ = wrapped
        _state["contract"] = True
    _state["ctx"] = ctx


def _kinds_for(flavour, cls):
    ent = isa.TABLE[flavour].get(cls.mnemonic)
    return ent[1] if ent else None


def cases(ctx):
    rng = ctx.rng
    k = 0
    for flav in ("vanilla", "nv", "reids"):
        k += 1
        if ctx.mine(k):
            yield {"kind": "tables", "flavour": flav}
    reps = 1 if ctx.quick else 12
    for flav in ("vanilla", "nv", "reids"):
        for cls in codec.flavour_classes(flav):
            kinds = _kinds_for(flav, cls)
            if kinds is None:
                ctx.count("unreferenced_classes")
                continue
            positions = codec.leaf_positions(kinds) or [None]
            for pos in positions:
                for r in range(reps):
                    k += 1
                    if not ctx.mine(k):
                        continue
                    yield {"kind": "sweep", "flavour": flav, "mnemonic": cls.mnemonic,
                           "pos": list(pos) if pos else None,
                           "base": codec.rand_values(rng, kinds), "app_id": rng.randrange(65536),
                           "version": [rng.randrange(256), rng.randrange(256)]}
    for flav in ("vanilla", "nv", "reids"):
        k += 1
        if ctx.mine(k):
            yield {"kind": "header", "flavour": flav}
    # every instruction of every flavour under other version bytes than the current ones (older, newer, extreme): the header's
    # version does not change how a command is encoded
    for flav in ("vanilla", "nv", "reids"):
        for m in sorted(isa.TABLE[flav]):
            for ver in ([0, 0], [0, 9], [0, 11], [1, 0], [255, 255]):
                k += 1
                if ctx.mine(k) and (not ctx.quick or ver in ([0, 0], [0, 9]) or k % 3 == 0):
                    yield {"kind": "single", "flavour": flav, "version": ver, "app_id": rng.randrange(65536),
                           "instrs": [[m, codec.rand_values(rng, isa.TABLE[flav][m][1])]]}
                # ... and with every integer operand zero (only the registers vary): the bytes two instructions are most likely to share
                k += 1
                if ctx.mine(k) and ver in ([0, 0], [0, 9], [0, 11]):
                    vals = codec.rand_values(rng, isa.TABLE[flav][m][1])
                    vals = [0 if isinstance(v, int) else v for v in vals]
                    yield {"kind": "single", "flavour": flav, "version": ver, "app_id": 0, "instrs": [[m, vals]]}
    if ctx.shard == 0:
        for flav in ("vanilla", "nv"):
            yield {"kind": "threaded-decode", "flavour": flav, "threads": 4, "rounds": ctx.n(60, 4000), "seed": rng.randrange(2**31)}
    # programs at and just past the sizes at which a block-wise or buffered decoder changes blocks (commands per 2^10 / 2^12 / 2^16 /
    # 2^18 bytes, 2^10 / 2^16 / 2^17 commands): built from a short random pattern repeated, judged by plain encode -> decode
    longs = [146, 147, 585, 586, 1023, 1024, 1025, 4095, 4096, 4097, 9361, 9362, 9363, 18724, 37448, 37449, 65535, 65536, 65537]
    if not ctx.quick:
        longs += [2 * 37449, 3 * 9362, 2**17 - 1, 2**17, 2**17 + 1, 149796, 149797, 2**18, 2**18 + 1]
    for i_long, ln in enumerate(longs):
        if ctx.mine(i_long):
            flav = rng.choice(["vanilla", "nv", "reids"])
            names = sorted(isa.TABLE[flav])
            pat = [[m, codec.rand_values(rng, isa.TABLE[flav][m][1])] for m in (rng.choice(names) for _ in range(rng.choice([1, 3, 7, 13])))]
            yield {"kind": "long", "flavour": flav, "version": [rng.randrange(256), rng.randrange(256)], "app_id": rng.randrange(65536),
                   "pattern": pat, "length": ln}
    nseq = ctx.n(300, 400000)
    for i_seq in range(nseq):
        flav = rng.choice(["vanilla", "nv", "reids"])
        names = sorted(isa.TABLE[flav])
        ln = rng.choice([0, 1, 2, 3, 5, 8, 13, 21, 34, 64]) if rng.random() < 0.5 else rng.randrange(65)
        r_long = rng.random()
        if r_long < 0.03 or i_seq == 0:
            # "instruction sequences of any length": long programs too (block-wise decoding has its boundaries at powers of two of
            # commands or bytes: 7 * ln around 1024, 4096, 65536 ...)
            ln = rng.choice([127, 128, 146, 147, 255, 256, 257, 585, 586, 1023, 1024, 1025, 4096, 9362, 9363, rng.randrange(65, 3000)])
            ctx.count("long_programs")
        ins = []
        for _ in range(ln):
            m = rng.choice(names)
            ins.append([m, codec.rand_values(rng, isa.TABLE[flav][m][1])])
        share = False
        if ln >= 3 and rng.random() < 0.2:
            # a program that repeats an instruction, built with ONE object listed at both positions, and a branch to the first of them
            i_, j_ = sorted(rng.sample(range(ln), 2))
            ins[j_] = copy.deepcopy(ins[i_])
            br = rng.choice(["jmp", "bez", "beq"])
            vals = codec.rand_values(rng, isa.TABLE[flav][br][1])
            vals[-1] = i_
            ins.insert(rng.randrange(ln + 1), [br, vals])
            share = True
        yield {"kind": "single", "flavour": flav, "version": [rng.randrange(256), rng.randrange(256)],
               "app_id": rng.choice([0, 1, 255, 256, 65535, rng.randrange(65536)]), "instrs": ins, "share": share}


def _long(ctx, case):
    from netqasm.lang.parsing import deserialize
    from netqasm.lang.subroutine import Subroutine
    flav, ln, pat = case["flavour"], case["length"], case["pattern"]
    fobj = codec.flavour_obj(flav)
    instrs = [pat[i % len(pat)] for i in range(ln)]
    # (the last instruction differs from the pattern, so that a program decoded twice over or cut short cannot look right)
    instrs[-1] = ["set", [["R", 5], ln % 2**31]]
    objs = [codec.mk_instr(fobj, flav, m, v) for m, v in pat]
    last = codec.mk_instr(fobj, flav, *instrs[-1])
    sub = Subroutine(netqasm_version=tuple(case["version"]), app_id=case["app_id"],
                     instructions=[objs[i % len(pat)] for i in range(ln - 1)] + [last])
    raw = bytes(sub)
    ctx.count("long_programs")
    ctx.count("instructions_in_long_programs", ln)
    what = None
    if len(raw) != isa.HEADER_BYTES + isa.COMMAND_BYTES * ln:
        what = f"encoded length {len(raw)} for {ln} instructions"
    else:
        try:
            dec = deserialize(raw, flavour=fobj)
        except Exception as e:
            what = f"decoding the encoded program raised {type(e).__name__}: {str(e)[:120]}"
        else:
            if len(dec.instructions) != ln:
                what = f"{ln} instructions decoded as {len(dec.instructions)}"
            elif tuple(dec.netqasm_version) != tuple(case["version"]) or dec.app_id != case["app_id"]:
                what = f"header decoded as version {tuple(dec.netqasm_version)} app {dec.app_id}"
            else:
                want = [[m, v] for m, v in instrs]
                for i, b in enumerate(dec.instructions):
                    if codec.describe_instr(b) != want[i]:
                        what = f"instr {i} of {ln}: {want[i]} decoded as {codec.describe_instr(b)}"
                        break
    if what:
        ctx.fail(case, f"{flav}: program of {ln} instructions: {what}")
    ctx.case(case, True)


def _roundtrip(ctx, case, flav, version, app_id, instrs, fobj=None, mutate=None):
    """Returns None if fine, else a description of the discrepancy."""
    from netqasm.lang.parsing import deserialize
    from netqasm.lang.subroutine import Subroutine
    fobj = fobj or codec.flavour_obj(flav)
    objs = [codec.mk_instr(fobj, flav, m, v) for m, v in instrs]
    if case.get("share"):
        first = {}
        for i_, (m, v) in enumerate(instrs):
            key = json.dumps([m, v])
            if key in first:
                objs[i_] = objs[first[key]]      # the very same object at both positions
                ctx.count("instruction_objects_listed_twice")
            else:
                first[key] = i_
    sub = Subroutine(netqasm_version=tuple(version), app_id=app_id, instructions=objs)
    raw = bytes(sub)
    ctx.count("roundtrips")
    if len(raw) != isa.HEADER_BYTES + isa.COMMAND_BYTES * len(objs):
        return f"encoded length {len(raw)} for {len(objs)} instructions"
    dec = deserialize(raw, flavour=fobj)
    if tuple(dec.netqasm_version) != tuple(version):
        return f"version {tuple(version)} decoded as {tuple(dec.netqasm_version)}"
    if dec.app_id != app_id:
        return f"app id {app_id} decoded as {dec.app_id}"
    if len(dec.instructions) != len(objs):
        return f"{len(objs)} instructions decoded as {len(dec.instructions)}"
    for i, (a, b) in enumerate(zip(objs, dec.instructions)):
        if type(a) is not type(b):
            return f"instr {i}: {a.mnemonic} ({type(a).__name__}) decoded as {b.mnemonic} ({type(b).__name__})"
        if codec.describe_instr(a) != codec.describe_instr(b) or a != b:
            return f"instr {i}: {codec.describe_instr(a)} decoded as {codec.describe_instr(b)}"
        if codec.describe_instr(b) != [instrs[i][0], instrs[i][1]]:
            return f"instr {i}: built from {instrs[i]} but describes as {codec.describe_instr(b)}"
    if bytes(dec) != raw:
        return "re-encoding the decoded subroutine gives different bytes"
    # long-lived Deserializer objects of all flavours coexist in a controller process
    ctx.count("long_lived_deserializer_decodes")
    from netqasm.lang.parsing.binary import Deserializer
    Deserializer(codec.flavour_obj({"vanilla": "nv", "nv": "vanilla", "reids": "vanilla"}[flav]))  # another controller starts up
    _EDITS[0] += 1
    if objs and _EDITS[0] % 3 == 0:
        # the long-lived decoder is first handed bytes it must refuse part-way (a command with an opcode the flavour does not
        # have, after commands it can decode): what it refused leaves nothing behind for the next subroutine
        junk = raw[:4 + 7 * (len(objs) // 2 + 1)] + bytes([0xEE, 1, 2, 3, 4, 5, 6])
        try:
            _deserializers()[flav].deserialize_subroutine(junk)
            ctx.count("unknown_opcode_accepted")
        except Exception:
            ctx.count("long_lived_deserializer_refusals")
    dd = _deserializers()[flav].deserialize_subroutine(raw)
    if [codec.describe_instr(i) for i in dd.instructions] != [[m, v] for m, v in instrs] or \
            any(type(a) is not type(b) for a, b in zip(objs, dd.instructions)):
        bad = next((f"{codec.describe_instr(a)} decoded as {codec.describe_instr(b)} ({type(b).__name__})"
                    for a, b in zip(objs, dd.instructions) if type(a) is not type(b) or codec.describe_instr(a) != codec.describe_instr(b)), "length")
        return f"a long-lived Deserializer({flav}) decodes differently from deserialize(): {bad}"
    # a consumer edits the decoded instructions in place (the NV transpiler does); decoding the same bytes again,
    # with any decoder of the process, must still give what the bytes say
    if objs:
        for d_ in (dec, dd):
            for ins_, (m, _) in zip(d_.instructions, instrs):
                codec.edit_in_place(ins_, codec.mk_instr(fobj, flav, m, codec.rand_values(ctx.rng, isa.TABLE[flav][m][1])))
        ctx.count("decodes_after_consumer_edit")
        for name, again in (("deserialize()", deserialize(raw, flavour=fobj)), ("a long-lived Deserializer", _deserializers()[flav].deserialize_subroutine(raw))):
            got = [codec.describe_instr(i) for i in again.instructions]
            if got != [[m, v] for m, v in instrs]:
                bad = next((f"{w} decoded as {g}" for g, w in zip(got, instrs) if g != [w[0], w[1]]), "length")
                return f"after a consumer edited earlier decoded instructions in place, {name} decodes the unchanged bytes differently: {bad}"
        # ... and an in-place operand edit of the encoded Subroutine itself (same instruction count) must show in its bytes
        k_ = ctx.rng.randrange(len(objs))
        m_ = instrs[k_][0]
        nv_ = codec.rand_values(ctx.rng, isa.TABLE[flav][m_][1])
        _EDITS[0] += 1
        codec.edit_in_place(sub.instructions[k_], codec.mk_instr(fobj, flav, m_, nv_), nested=_EDITS[0] % 2 == 0)
        want_ = [[m, v] for m, v in instrs]
        for i_ in range(len(objs)):
            if objs[i_] is objs[k_]:          # (an object listed twice shows the edit at both positions)
                want_[i_] = [m_, nv_]
        ctx.count("reencode_after_operand_edit")
        got_ = [codec.describe_instr(i) for i in deserialize(bytes(sub), flavour=fobj).instructions]
        if got_ != want_:
            return (f"after operand fields of instruction {k_} were updated in place to {[m_, nv_]}, bytes(Subroutine) still "
                    f"encodes {got_[k_] if k_ < len(got_) else '?'} (stale encoding)")
    # the same Subroutine object, changed after it was encoded once, must encode its current content
    if objs and mutate is not None:
        new_app, new_instrs = mutate
        how = ctx.rng.choice(["setter", "instantiate"])
        if how == "setter":
            sub.app_id = new_app
        else:
            sub.instantiate(new_app, {})
        nobjs = [codec.mk_instr(fobj, flav, m, v) for m, v in new_instrs]
        edit = ctx.rng.choice(["append", "replace-in-place", "assign-list"])
        if edit == "append":
            sub.instructions.append(nobjs[0])
            want = list(sub.instructions)
        elif edit == "replace-in-place":
            sub.instructions[0] = nobjs[0]
            want = list(sub.instructions)
        else:
            sub.instructions = nobjs
            want = nobjs
        ctx.count("reencode_after_update")
        dec2 = deserialize(bytes(sub), flavour=fobj)
        if dec2.app_id != new_app:
            return f"after the app id was changed to {new_app} ({how}) the encoded bytes carry app id {dec2.app_id}"
        if [codec.describe_instr(i) for i in dec2.instructions] != [codec.describe_instr(i) for i in want]:
            return f"after the instruction list was changed ({edit}) the encoded bytes still describe the old instructions"
    return None


_DESER = {}


def _deserializers():
    from netqasm.lang.parsing.binary import Deserializer
    if not _DESER:
        for n in ("vanilla", "nv", "reids"):
            _DESER[n] = Deserializer(codec.flavour_obj(n))
    return _DESER


def _threaded_decode(ctx, case):
    """One controller thread per node is the normal threaded deployment: several threads decode the subroutines they received
    at the same time through the module's deserialize() (default flavour and explicit flavour). Each must get its own program."""
    import random
    import sys
    import threading
    from netqasm.lang.parsing import deserialize
    n, rounds, flav = case["threads"], case["rounds"], case["flavour"]
    fobj = codec.flavour_obj(flav)
    names = sorted(isa.TABLE[flav])
    errors = []
    old = sys.getswitchinterval()
    sys.setswitchinterval(1e-6)
    barrier = threading.Barrier(n)

    def worker(t):
        rng = random.Random(case["seed"] * 31 + t)
        barrier.wait()
        for r in range(rounds):
            ins = [[m, codec.rand_values(rng, isa.TABLE[flav][m][1])] for m in (rng.choice(names) for _ in range(rng.randrange(1, 120)))]
            app = 257 * (t + 1) + (r % 7)
            raw = isa.encode_subroutine(flav, [t, r % 256], app, ins)
            try:
                dec = deserialize(raw) if (flav == "vanilla" and r % 2 == 0) else deserialize(raw, flavour=fobj)
                got = [codec.describe_instr(i) for i in dec.instructions]
                head = (tuple(dec.netqasm_version), dec.app_id)
            except Exception as e:
                errors.append(f"thread {t} round {r}: {type(e).__name__}: {str(e)[:80]}")
                return
            if got != ins or head != ((t, r % 256), app):
                errors.append(f"thread {t} round {r}: {len(ins)} instructions for app {app} decode as {len(got)} instructions for app {head[1]}")
                return
    try:
        ths = [threading.Thread(target=worker, args=(t,)) for t in range(n)]
        for th in ths:
            th.start()
        for th in ths:
            th.join(300)
    finally:
        sys.setswitchinterval(old)
    ctx.count("threaded_decodes", n * rounds)
    if errors:
        ctx.fail(case, f"{flav}: subroutines decoded concurrently by different threads come back wrong: " + errors[0])
    ctx.case(case, True)


def run_case(ctx, case):
    kind = case["kind"]
    flav = case["flavour"]
    if kind == "threaded-decode":
        return _threaded_decode(ctx, case)
    if kind == "long":
        return _long(ctx, case)
    if kind == "tables":
        _state["table_violations"] = {}
        fobj = codec.fresh_flavour(flav)
        for msg in _state["table_violations"].values():
            ctx.fail(case, f"{flav}: Flavour.__init__ postcondition broken: {msg}", key="flavour-table-collision")
        classes = codec.flavour_classes(flav)
        ids = [c.id for c in classes]
        names = [c.mnemonic for c in classes]
        ctx.count("classes_" + flav, len(classes))
        if len(set(ids)) != len(ids) or len(set(names)) != len(names):
            dup = sorted({i for i in ids if ids.count(i) > 1}) + sorted({n for n in names if names.count(n) > 1})
            ctx.fail(case, f"{flav}: duplicate opcode/mnemonic {dup}", key="flavour-table-collision")
        for c in classes:
            if fobj.get_instr_by_id(c.id) is not c or fobj.get_instr_by_name(c.mnemonic) is not c:
                ctx.fail(case, f"{flav}: {c.__name__} not retrievable as itself by id {c.id} / name {c.mnemonic}",
                         key="flavour-table-collision")
                break
        ctx.case(case)
        return
    if kind == "header":
        fobj = codec.flavour_obj(flav)
        ins = [["set", [["R", 1], 5]]]
        n = 0
        for app in [0, 1, 2, 255, 256, 257, 32767, 32768, 65534, 65535] + [1 << b for b in range(16)]:
            for ver in ([0, 0], [1, 0], [0, 1], [255, 254]):
                n += 1
                err = _roundtrip(ctx, case, flav, ver, app, ins, fobj)
                if err:
                    ctx.fail({"kind": "single", "flavour": flav, "version": ver, "app_id": app, "instrs": ins}, err)
                    ctx.case(case)
                    return
        for v in range(256):
            for ver in ([v, 7], [7, v]):
                err = _roundtrip(ctx, case, flav, ver, 513, ins, fobj)
                if err:
                    ctx.fail({"kind": "single", "flavour": flav, "version": ver, "app_id": 513, "instrs": ins}, err)
                    ctx.case(case)
                    return
        ctx.count("header_values", n + 512)
        ctx.case(case)
        return
    if kind == "sweep":
        fobj = codec.flavour_obj(flav)
        m = case["mnemonic"]
        kinds = isa.TABLE[flav][m][1]
        pos = tuple(case["pos"]) if case["pos"] else None
        values = [case["base"]] if pos is None else [
            codec.set_leaf(case["base"], pos, v) for v in codec.all_leaf_values(pos[2], not ctx.quick)]
        ctx.count("field_positions_swept")
        for vals in values:
            err = _roundtrip(ctx, case, flav, case["version"], case["app_id"], [[m, vals]], fobj)
            if err:
                ctx.fail({"kind": "single", "flavour": flav, "version": case["version"], "app_id": case["app_id"],
                          "instrs": [[m, vals]]}, f"{flav}/{m}: {err}")
                break
        ctx.case(case, nontrivial=bool(kinds))
        return
    if kind == "single":
        mut = None
        if case["instrs"]:
            names = sorted(isa.TABLE[flav])
            m2 = ctx.rng.choice(names)
            mut = ((case["app_id"] + 1 + ctx.rng.randrange(100)) % 65536, [[m2, codec.rand_values(ctx.rng, isa.TABLE[flav][m2][1])]])
        err = _roundtrip(ctx, case, flav, case["version"], case["app_id"], case["instrs"], mutate=mut)
        if err:
            ctx.fail(case, f"{flav}: {err}")
        ctx.case(case, nontrivial=any(v for _, v in case["instrs"]))
        return
    raise ValueError(kind)


def finish(ctx):
    # informational: concrete classes that are registered in no flavour
    if ctx.shard == 0:
        import inspect
        from netqasm.lang.instr import core, nv, vanilla
        registered = set()
        for f in ("vanilla", "nv", "reids"):
            registered.update(codec.flavour_classes(f))
        loose = []
        for mod in (core, vanilla, nv):
            for name, cls in inspect.getmembers(mod, inspect.isclass):
                if cls.__module__ == mod.__name__ and getattr(cls, "id", -1) not in (-1, None) and cls not in registered:
                    loose.append(f"{mod.__name__.split('.')[-1]}.{name}")
        ctx.notes["classes_registered_in_no_flavour"] = loose
