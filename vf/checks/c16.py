"""C16 — operands the format cannot represent are rejected, never silently altered (L1 + SDK routes).

Oracle (exactly the disjunction of the statement): for an out-of-range operand, encoding raises, or the
bytes decode back to the very same operand.  In-range twins of every case must still encode and round-trip
(guards against a repair that over-rejects).
"""
from __future__ import annotations

from vf.harness import codec
from vf.ref import isa

PID = "C16"
LEVEL = "exploration"
RULE = ("every flavour x instruction shape x operand field position x values just outside and far outside the field's "
        "range (register index 16,17,31,63,64,255,-1; imm8 -1,-128,-256,256,257,300,511,65536,2^31; int32/address "
        "+-2^31(+-1), 2^32-1, 2^32, 2^32+5, +-2^63; app id -1, 65536, 70000, 2^32; version byte -1, 256, 300), reached "
        "by direct construction, by the text assembler, and by the SDK (rotation numerators/denominators, array "
        "initial values and lengths, loop bounds, app ids); each with an in-range twin."
        ' Also numpy-typed integers in every integer field and SDK route, template operands instantiated with unrepresentable values, random magnitudes up to 2^70, several offending fields, offending operands deep inside programs of up to 30 instructions (direct and text), and fresh interpreters whose first use of every shape carried bool / numpy / float operands. '
        ' Zero-dimensional numpy arrays as operands; SDK rotations under the hardware switch with numerators outside the immediate range. '
        "Non-trivial = the case "
        "carries an out-of-range value; distinct = distinct case description.")
ASSUMPTIONS = ["'raises' means any exception before bytes are produced (construction, assembling or bytes())",
               "a value that encodes without error must decode to exactly the same operand (checked with the repo decoder and the reference decoder)"]
SHARDS = {"quick": 1, "thorough": 16}
MIN_COUNTERS = {"out_of_range_rejected": 200, "in_range_twins_ok": 200}
PRE = "# NETQASM 1.0\n# APPID 0\n"

OUT = {
    "regidx": [16, 17, 31, 32, 63, 64, 255, 256, -1, -16],
    isa.I8: [-1, -2, -128, -255, -256, 256, 257, 300, 511, 512, 65535, 65536, 2**31, 2**32 + 7],
    isa.I32: [2**31, 2**31 + 1, -(2**31) - 1, 2**32 - 1, 2**32, 2**32 + 5, 2**33, 2**63, -(2**63), 2**64 + 3, -(2**32)],
}
IN = {
    "regidx": [0, 1, 15],
    isa.I8: [0, 1, 255],
    isa.I32: [0, -1, 2**31 - 1, -(2**31)],
}


def _leaf_values(leaf_kind, which):
    table = OUT if which == "out" else IN
    if leaf_kind == isa.R:
        return [["RCQM"[i % 4], v] for i, v in enumerate(table["regidx"])]
    if leaf_kind == isa.I8:
        return table[isa.I8]
    return table[isa.I32]


def cases(ctx):
    rng = ctx.rng
    k = 0
    for route in ("direct", "text"):
        for flav in ("vanilla", "nv", "reids"):
            for m, (op, kinds) in sorted(isa.TABLE[flav].items()):
                for pos in codec.leaf_positions(kinds):
                    for which in ("out", "in"):
                        for v in _leaf_values(pos[2], which):
                            k += 1
                            if not ctx.mine(k):
                                continue
                            base = codec.rand_values(rng, kinds)
                            yield {"kind": route, "flavour": flav, "mnemonic": m, "pos": list(pos), "value": v,
                                   "values": codec.set_leaf(base, pos, v), "expect": which}
    for route in ("direct", "text", "setter", "instantiate"):
        for which, apps, vers in (("out", [-1, -2, 65536, 65537, 70000, 70001, 2**31, 2**32, 2**32 + 1], [-1, 256, 257, 300, 65536]),
                                  ("in", [0, 1, 65535], [0, 1, 255])):
            for a in apps:
                k += 1
                if ctx.mine(k) and not (route == "text" and a < 0):
                    yield {"kind": route + "-header", "app_id": a, "version": [1, 0], "expect": which}
            for v in vers:
                if route in ("setter", "instantiate"):
                    break
                for slot in (0, 1):
                    k += 1
                    if ctx.mine(k) and not (route == "text" and v < 0):
                        ver = [1, 1]
                        ver[slot] = v
                        yield {"kind": route + "-header", "app_id": 3, "version": ver, "expect": which}
    sdk = []
    for axis in "XYZ":
        for n in (256, 300, 511, 1000, 65536 + 3, 2**31):
            sdk.append({"kind": "sdk-rot", "axis": axis, "n": n, "d": 1, "expect": "out"})
        for d in (256, 257, 300, 1000):
            sdk.append({"kind": "sdk-rot", "axis": axis, "n": 1, "d": d, "expect": "out"})
        for n, d in ((0, 0), (255, 255), (1, 4), (31, 4)):
            sdk.append({"kind": "sdk-rot", "axis": axis, "n": n, "d": d, "expect": "in"})
    for v in (2**31, 2**31 + 9, -(2**31) - 1, 2**32, 2**40):
        sdk.append({"kind": "sdk-array-init", "value": v, "expect": "out"})
        if v > 0:      # (a negative stop is an empty range: the loop is compiled away, the value is never an operand)
            sdk.append({"kind": "sdk-loop", "stop": v, "expect": "out"})
        sdk.append({"kind": "sdk-add", "value": v, "expect": "out"})
    for v in (0, 7, 2**31 - 1, -(2**31)):
        sdk.append({"kind": "sdk-array-init", "value": v, "expect": "in"})
        sdk.append({"kind": "sdk-add", "value": v, "expect": "in"})
    for v in (3, 100):
        sdk.append({"kind": "sdk-loop", "stop": v, "expect": "in"})
    for a in (65536, 70000, 2**20):
        sdk.append({"kind": "sdk-appid", "app_id": a, "expect": "out"})
    for a in (0, 5, 65535):
        sdk.append({"kind": "sdk-appid", "app_id": a, "expect": "in"})
    for a, e in ((65536, "out"), (70000, "out"), (7, "in")):
        sdk.append({"kind": "sdk-appid-precompiled", "app_id": a, "expect": e})
    for axis in "XYZ":
        for n in (256, 300, -1, 511, 2**32 + 1):
            for d in (0, 2, 4):
                sdk.append({"kind": "sdk-rot-hw", "axis": axis, "n": n, "d": d, "expect": "out"})
    for use in ("rot", "array-init", "loop"):
        for outcome in (0, 1):
            sdk.append({"kind": "sdk-resolved-future", "use": use, "outcome": outcome, "expect": "in"})
    # an integer-like object whose value lives in __int__ / the comparison operators while its raw int is 0 (what a resolved
    # Future of the SDK is) at the sites that are not command fields: register index, array address, entry and slice parts,
    # application id, version bytes
    # branch immediates at the edge of the range in subroutines whose instruction list carries debug comments (the encoder moves
    # branch targets when it leaves the comments out) and on the way through the NV transpiler (which renumbers branch targets)
    for ncomm in (1, 2, 5):
        for m in ("jmp", "bez", "beq"):
            for v in (2**31 - 1, 2**31, 2**31 + 1, 2**31 + ncomm - 1, 2**31 + ncomm, 2**32, -2**31, -2**31 - 1, 0, 1, 3):
                sdk.append({"kind": "debug-branch", "mnemonic": m, "comments": ncomm, "value": v,
                            "expect": "in" if -2**31 <= v <= 2**31 - 1 else "out"})
    for m in ("jmp", "bez", "beq", "blt"):
        for v in (2**31, 2**31 + 7, 2**32, 2**40, -2**31 - 1, 2**31 - 1):
            sdk.append({"kind": "nv-branch", "mnemonic": m, "value": v, "expect": "in" if -2**31 <= v <= 2**31 - 1 else "out"})
    # measurement in a rotated basis (the non-default keyword of Qubit.measure): numerators outside 0..255 are refused, not wrapped
    for v in (-8, -1, -32, 256, 300, 24, 0, 255):
        for slot in (0, 1, 2):
            sdk.append({"kind": "sdk-meas-basis", "value": v, "slot": slot, "expect": "in" if 0 <= v <= 255 else "out"})
    # rotations handed to the NV transpiler on the hardware setting (denominators 0..4 only): a denominator or numerator the
    # hardware format cannot hold is refused, also when it is negative
    for m in ("rot_x", "rot_y", "rot_z"):
        for n_, d_ in ((3, -1), (3, -2), (1, -128), (3, 5), (3, 255), (-1, 2), (256, 2), (3, 2), (31, 4), (0, 0)):
            sdk.append({"kind": "nv-hw-rot", "mnemonic": m, "n": n_, "d": d_, "expect": "in" if (0 <= d_ <= 4 and 0 <= n_ <= 255) else "out"})
    for site in ("reg", "addr", "entry", "slice", "app", "version"):
        for v in (1, 5, 15, 16, 255, 300, 70000):
            for plain in (False, True):
                # (plain: an int subclass that carries its value in __int__ only - comparisons still see the raw 0)
                sdk.append({"kind": "carrier", "site": site, "value": v, "plain": plain,
                            "expect": "in" if v < {"reg": 16, "entry": 16, "slice": 16, "version": 256, "app": 65536}.get(site, 2**31) else "out"})
    for c in sdk:
        k += 1
        if ctx.mine(k):
            yield c
    # ---- process history: what the FIRST use of an instruction shape looked like must not decide later range checks ----
    for mode in ("bool", "numpy", "float"):
        k += 1
        if ctx.mine(k):
            yield {"kind": "first-use", "mode": mode, "expect": "out"}
    # ---- header fields and hardware angles that are not integers at all (a float, a numeric string): refused, not rounded / parsed ----
    for site in ("app", "version", "hw-num", "hw-denom"):
        for v in (5.7, "7", 2.0, "0x3"):
            k += 1
            if ctx.mine(k):
                yield {"kind": "non-integer", "site": site, "value": v, "expect": "out"}
    # ---- a subroutine that was encoded once, then had an array operand edited IN PLACE to something unrepresentable ----
    for what in ("entry-index-16", "entry-address-2^32", "slice-stop-16", "slice-address-negative-overflow", "slice-start-16"):
        k += 1
        if ctx.mine(k):
            yield {"kind": "nested-edit-after-encoding", "what": what, "expect": "out"}
    # ---- integer-like operand types (numpy scalars as produced by application code that computes its operands) ----
    for flav, m in (("vanilla", "set"), ("vanilla", "rot_x"), ("nv", "rot_y"), ("vanilla", "array"), ("vanilla", "store"),
                    ("vanilla", "crot_z"), ("vanilla", "load"), ("reids", "set")):
        if m not in isa.TABLE[flav]:
            continue
        kinds = isa.TABLE[flav][m][1]
        for pos in codec.leaf_positions(kinds):
            if pos[2] == isa.R:
                continue
            for which in ("out", "in"):
                for v in _leaf_values(pos[2], which):
                    for ty in _np_types_for(v):
                        k += 1
                        if ctx.mine(k):
                            yield {"kind": "direct", "flavour": flav, "mnemonic": m, "pos": list(pos), "value": v, "vtype": ty,
                                   "values": codec.set_leaf(codec.rand_values(rng, kinds), pos, v), "expect": which}
    for axis in "XYZ":
        for n, d, e in ((300, 1, "out"), (256, 0, "out"), (1, 256, "out"), (-1, 2, "out"), (2**32 + 3, 1, "out"), (3, 2, "in"), (255, 255, "in")):
            for ty in ("int64", "int32", "uint16") if n >= 0 else ("int64", "int32"):
                k += 1
                if ctx.mine(k):
                    yield {"kind": "sdk-rot", "axis": axis, "n": n, "d": d, "vtype": ty, "expect": e}
    for v, e in ((2**31, "out"), (2**32 + 5, "out"), (-(2**31) - 1, "out"), (2**40 + 1, "out"), (9, "in"), (-(2**31), "in")):
        for kind in ("sdk-array-init", "sdk-add"):
            k += 1
            if ctx.mine(k):
                yield {"kind": kind, "value": v, "vtype": "int64", "expect": e}
    # ---- template operands instantiated with values the field cannot hold ------------------------------------
    for flav in ("vanilla", "nv"):
        for m in sorted(x for x in isa.TABLE[flav] if x.startswith("rot_") or x.startswith("crot_")):
            kinds = isa.TABLE[flav][m][1]
            for pos in codec.leaf_positions(kinds):
                if pos[2] != isa.I8:
                    continue
                for which in ("out", "in"):
                    for v in _leaf_values(isa.I8, which):
                        for ty in (None, "int64"):
                            if ty and not -2**63 <= v < 2**63:
                                continue
                            k += 1
                            if ctx.mine(k):
                                yield {"kind": "template", "flavour": flav, "mnemonic": m, "pos": list(pos), "value": v, "vtype": ty,
                                       "values": codec.set_leaf(codec.rand_values(rng, kinds), pos, v), "expect": which}
    # ---- random magnitudes, several offending fields, and offending operands deep inside a longer program ---------
    for _ in range(ctx.n(300, 600000)):
        flav = rng.choice(["vanilla", "nv", "reids"])
        names = sorted(x for x in isa.TABLE[flav] if codec.leaf_positions(isa.TABLE[flav][x][1]))
        nins = rng.choice([1, 1, 2, 5, 12, 30])
        instrs = [[m, codec.rand_values(rng, isa.TABLE[flav][m][1])] for m in (rng.choice(names) for _ in range(nins))]
        expect = "out" if rng.random() < 0.8 else "in"
        bad = []
        if expect == "out":
            for _ in range(rng.choice([1, 1, 1, 2, 3])):
                i = rng.randrange(nins)
                pos = rng.choice(codec.leaf_positions(isa.TABLE[flav][instrs[i][0]][1]))
                v = _rand_out(rng, pos[2])
                instrs[i][1] = codec.set_leaf(instrs[i][1], pos, v)
                bad.append([i, list(pos)])
        yield {"kind": rng.choice(["program-direct", "program-text"]), "flavour": flav, "instrs": instrs, "bad": bad, "expect": expect}


def _array_init_first(descr):
    """Value stored into entry 0 of the first array by the init code (set Rv x; set Ri 0; store Rv @a[Ri])."""
    regs = {}
    for d in descr:
        if d[0] == "set":
            regs[tuple(d[1][0])] = d[1][1]
        elif d[0] == "store":
            idx = d[1][1][1]
            if regs.get(tuple(idx)) == 0:
                return regs.get(tuple(d[1][0]))
    return None


def _np_types_for(v):
    out = []
    for ty, lo, hi in (("int64", -2**63, 2**63 - 1), ("int32", -2**31, 2**31 - 1), ("uint16", 0, 65535), ("uint64", 0, 2**64 - 1), ("int16", -2**15, 2**15 - 1)):
        if lo <= v <= hi:
            out.append(ty)
    return out[:3] + (["array0"] if -2**63 <= v < 2**63 else [])


def _rand_out(rng, kind):
    """A random value outside the field's range: just outside, a random bit pattern above it, or far outside."""
    if kind == isa.R:
        return [rng.choice("RCQM"), rng.choice([16, 16 + rng.randrange(16), rng.randrange(32, 256), rng.randrange(256, 2**16), -rng.randrange(1, 17)])]
    if kind == isa.I8:
        return rng.choice([256 + rng.randrange(256), rng.randrange(256, 2**16), rng.randrange(2**16, 2**33), -rng.randrange(1, 257),
                           -rng.randrange(257, 2**20), 256 * rng.randrange(1, 2**24) + rng.randrange(256)])
    hi = rng.choice([2**31 + rng.randrange(2**16), rng.randrange(2**31, 2**32), 2**32 * rng.randrange(1, 2**20) + rng.randrange(2**32),
                     rng.randrange(2**32, 2**70)])
    return hi if rng.random() < 0.6 else -hi - 1


def _typed(v, ty):
    if ty is None:
        return v
    import numpy as np
    if ty == "array0":
        return np.asarray(v)          # zero-dimensional array (np.squeeze, reshape(())): usable as an index, not an Integral
    return getattr(np, ty)(v)


def _typed_values(case):
    if not case.get("vtype"):
        return case["values"]
    pos = case["pos"]
    return codec.set_leaf(case["values"], (pos[0], pos[1], pos[2]), _typed(case["value"], case["vtype"]))


def _judge(ctx, case, produce, expected_instrs=None, header=None, flav="vanilla"):
    """produce() -> bytes of a subroutine. Judge by the disjunction."""
    from netqasm.lang.parsing import deserialize
    out = case["expect"] == "out"
    try:
        raw = produce()
    except Exception as e:
        if out:
            ctx.count("out_of_range_rejected")
        elif case.get("vtype"):
            ctx.count("typed_in_range_rejected_loudly")   # a numpy scalar refused with an error: loud, so not this property's concern
        else:
            ctx.fail(case, f"in-range twin is rejected: {type(e).__name__}: {str(e)[:120]}")
        return
    # encoded without error: must decode to the very same thing
    try:
        dec = deserialize(raw, flavour=codec.flavour_obj(flav))
        got = [codec.describe_instr(i) for i in dec.instructions]
        ghead = (list(dec.netqasm_version), dec.app_id)
        rver, rapp, rins = isa.decode_subroutine(flav, raw)
        rgot = [[m, v] for m, v in rins]
    except Exception as e:
        ctx.fail(case, f"encoded bytes do not decode: {type(e).__name__}: {e}")
        return
    ok = True
    if expected_instrs is not None:
        ok = ok and got == expected_instrs and rgot == expected_instrs
    if header is not None:
        ok = ok and ghead == header and [list(rver), rapp] == [header[0], header[1]]
    if ok:
        ctx.count("in_range_twins_ok" if not out else "out_of_range_roundtripped")
        if out:
            ctx.fail(case, "harness: a value outside the field range round-tripped", key=None)
    else:
        if header is not None and (ghead != header):
            what = f"header (version, app id) {header} was encoded without error and decodes as {ghead}"
        else:
            what = f"{expected_instrs if expected_instrs is not None else header} was encoded without error and decodes as {got if expected_instrs is not None else ghead}"
        ctx.fail(case, ("silently altered: " if out else "in-range twin altered: ") + what)


def run_case(ctx, case):
    from netqasm.lang.parsing.text import parse_text_subroutine
    kind = case["kind"]
    out = case["expect"] == "out"
    if kind == "first-use":
        import json
        import os
        import subprocess
        import sys
        probe = os.path.join(os.path.dirname(os.path.dirname(os.path.abspath(__file__))), "harness", "firstuse_probe.py")
        try:
            p = subprocess.run([sys.executable, probe, case["mode"]], capture_output=True, text=True, timeout=300)
            rep = json.loads(p.stdout.strip().splitlines()[-1])
        except Exception as e:  # the probe itself failed: nothing observed
            ctx.count("first_use_probe_failed")
            ctx.notes["first_use_probe_error"] = f"{type(e).__name__}: {str(e)[:200]}"
            return ctx.case(case, False)
        ctx.count("out_of_range_rejected", rep["checked"] - len(rep["violations"]))
        ctx.count("first_use_probes", rep["first_uses"])
        for v in rep["violations"][:1]:
            ctx.fail(case, f"silently altered: in a process whose first {v['mnemonic']} carried its operands as {case['mode']}, "
                           f"{[v['mnemonic'], v['values']]} was encoded without error and decodes as {v['decoded']}")
        return ctx.case(case, True)
    if kind == "non-integer":
        from netqasm.lang.parsing import deserialize
        from netqasm.lang.subroutine import Subroutine
        site, v = case["site"], case["value"]
        ctx.count("non_integer_values_offered")
        try:
            if site in ("app", "version"):
                sub = Subroutine(instructions=[], netqasm_version=(1, v) if site == "version" else (1, 2), app_id=v if site == "app" else 3)
                raw = bytes(sub)
                dec = deserialize(raw)
                shown = f"app {dec.app_id} version {tuple(dec.netqasm_version)}"
            else:
                from netqasm.lang.instr import vanilla
                from netqasm.lang.operand import Immediate
                from netqasm.runtime.settings import set_is_using_hardware
                from netqasm.sdk.transpile import NVSubroutineTranspiler
                ins = vanilla.RotXInstruction(reg=codec.mk_reg(["Q", 0]), imm0=Immediate(v if site == "hw-num" else 3), imm1=Immediate(v if site == "hw-denom" else 2))
                set_is_using_hardware(True)
                try:
                    out_ = NVSubroutineTranspiler(Subroutine(instructions=[codec.mk_instr(codec.flavour_obj("vanilla"), "vanilla", "set", [["Q", 0], 0]), ins], app_id=0)).transpile()
                    raw = bytes(out_)
                finally:
                    set_is_using_hardware(False)
                shown = str([str(i) for i in deserialize(raw, flavour=codec.flavour_obj("nv")).instructions])
        except Exception:
            ctx.count("out_of_range_rejected")
            return ctx.case(case, True)
        ctx.fail(case, f"silently altered: the {type(v).__name__} {v!r} given as {site} was encoded without error as {shown}")
        return ctx.case(case, True)
    if kind == "nested-edit-after-encoding":
        from netqasm.lang.encoding import RegisterName
        from netqasm.lang import operand as op_
        from netqasm.lang.parsing import deserialize
        what = case["what"]
        R = lambda i: op_.Register(RegisterName.R, i)
        prog = [["set", [["R", 1], 1]], ["store", [["R", 1], [2, ["R", 3]]]], ["wait_all", [[2, ["R", 1], ["R", 4]]]], ["load", [["R", 5], [2, ["R", 3]]]]]
        sub = codec.mk_subroutine("vanilla", [1, 0], 0, prog)
        first = bytes(sub)
        ctx.count("subroutines_encoded_before_the_edit")
        store, wait = sub.instructions[1], sub.instructions[2]
        if what == "entry-index-16":
            store.entry.index = R(16)
        elif what == "entry-address-2^32":
            store.entry.address = op_.Address(2**32)
        elif what == "slice-stop-16":
            wait.slice.stop = R(16)
        elif what == "slice-start-16":
            wait.slice.start = R(31)
        else:
            wait.slice.address = op_.Address(-(2**31) - 1)
        try:
            again = bytes(sub)
        except Exception:
            ctx.count("out_of_range_rejected")
            return ctx.case(case, True)
        ctx.fail(case, f"silently altered: a subroutine that had been encoded once, then had an array operand edited in place ({what}), was "
                       f"encoded again without error as {[str(i) for i in deserialize(again).instructions]}"
                       f"{' (the bytes of the first encoding)' if again == first else ''}")
        return ctx.case(case, True)
    if kind in ("program-direct", "program-text"):
        flav, instrs = case["flavour"], case["instrs"]
        if kind == "program-direct":
            def produce():
                return bytes(codec.mk_subroutine(flav, [1, 0], 0, instrs))
        else:
            text = PRE + "\n".join(isa.fmt_instr(flav, m, v) for m, v in instrs)

            def produce():
                return bytes(parse_text_subroutine(text, flavour=codec.flavour_obj(flav)))
        ctx.count("programs_with_offending_operand" if out else "programs_in_range")
        _judge(ctx, case, produce, expected_instrs=[[m, v] for m, v in instrs], flav=flav)
        ctx.case(case, nontrivial=out)
        return
    if kind == "template":
        flav, m, vals, pos = case["flavour"], case["mnemonic"], case["values"], case["pos"]
        want = [[m, vals]]

        from netqasm.lang.operand import Template
        from netqasm.lang.subroutine import Subroutine
        fobj = codec.flavour_obj(flav)
        kinds = isa.TABLE[flav][m][1]
        ops = [codec.mk_operand(kd, v) for kd, v in zip(kinds, codec.set_leaf(vals, pos, 1))]
        ops[pos[0]] = Template("t")
        try:
            templated = fobj.get_instr_by_name(m).from_operands(ops)
        except Exception:
            ctx.count("template_slot_not_supported")      # this instruction shape takes no template in that slot
            return ctx.case(case, False)

        def produce():
            sub = Subroutine(netqasm_version=(1, 0), app_id=0, instructions=[templated])
            sub.instantiate(0, {"t": _typed(case["value"], case.get("vtype"))})
            return bytes(sub)
        ctx.count("template_instantiations")
        _judge(ctx, case, produce, expected_instrs=want, flav=flav)
        ctx.case(case, nontrivial=out)
        return
    if kind in ("direct", "text"):
        flav, m, vals = case["flavour"], case["mnemonic"], case["values"]
        want = [[m, vals]]
        if kind == "direct":
            tv = _typed_values(case)
            if case.get("vtype"):
                ctx.count("numpy_typed_operands")

            def produce():
                return bytes(codec.mk_subroutine(flav, [1, 0], 0, [[m, tv]]))
        else:
            text = PRE + isa.fmt_instr(flav, m, vals)

            def produce():
                return bytes(parse_text_subroutine(text, flavour=codec.flavour_obj(flav)))
        _judge(ctx, case, produce, expected_instrs=want, flav=flav)
        ctx.case(case, nontrivial=out)
        return
    if kind in ("direct-header", "text-header", "setter-header", "instantiate-header"):
        ins = [["set", [["R", 1], 5]]]
        if kind == "direct-header":
            def produce():
                return bytes(codec.mk_subroutine("vanilla", case["version"], case["app_id"], ins))
        elif kind == "setter-header":
            def produce():
                sub = codec.mk_subroutine("vanilla", case["version"], 0, ins)
                if case["app_id"] % 2:
                    bytes(sub)               # already serialised once (logging, size computation) with the old id
                sub.app_id = case["app_id"]  # the app id is often only known after construction
                return bytes(sub)
        elif kind == "instantiate-header":
            def produce():
                sub = codec.mk_subroutine("vanilla", case["version"], None if case["app_id"] % 2 else 0, ins)
                if sub.app_id is not None:
                    bytes(sub)               # serialised before it is re-instantiated for another application
                sub.instantiate(case["app_id"], {})  # what the SDK does before committing
                return bytes(sub)
        else:
            text = f"# NETQASM {case['version'][0]}.{case['version'][1]}\n# APPID {case['app_id']}\nset R1 5"

            def produce():
                return bytes(parse_text_subroutine(text))
        _judge(ctx, case, produce, expected_instrs=ins, header=(list(case["version"]), case["app_id"]))
        ctx.case(case, nontrivial=out)
        return
    # ---- SDK routes ---------------------------------------------------------------------------
    from vf.harness.sdkprobe import emitted_subroutines
    from netqasm.sdk.qubit import Qubit

    def sdk(prog, found, **kw):
        try:
            subs = emitted_subroutines(prog, **kw)
        except Exception as e:
            if out:
                ctx.count("out_of_range_rejected")
            elif case.get("vtype"):
                ctx.count("typed_in_range_rejected_loudly")
            else:
                ctx.fail(case, f"in-range SDK twin is rejected: {type(e).__name__}: {str(e)[:160]}")
            return
        descr = [codec.describe_instr(i) for s in subs for i in s.instructions]
        if found(descr, subs):
            if out:
                ctx.fail(case, "harness: out-of-range SDK value round-tripped")
            else:
                ctx.count("in_range_twins_ok")
        else:
            ctx.fail(case, ("silently altered: " if out else "in-range twin altered: ") +
                     f"the controller received {[d for d in descr if d[0] not in ('qalloc', 'init')][:8]}")

    if kind == "sdk-rot":
        mn = "rot_" + case["axis"].lower()

        def prog(conn):
            q = Qubit(conn)
            getattr(q, "rot_" + case["axis"])(n=_typed(case["n"], case.get("vtype")), d=_typed(case["d"], case.get("vtype")))
        sdk(prog, lambda descr, subs: any(d[0] == mn and d[1][1:] == [case["n"], case["d"]] for d in descr))
    elif kind == "sdk-meas-basis":
        from vf.harness.pipeline import Pipe
        v, slot = case["value"], case["slot"]
        rots = [1, 2, 3]
        rots[slot] = v
        ctx.count("sdk_measurements_in_a_rotated_basis")
        try:
            p_ = Pipe(script=[0, 0], max_qubits=2)
            with p_.conn as conn:
                q = Qubit(conn)
                q.measure(basis_rotations=tuple(rots))
                conn.flush()
                descr = [codec.describe_instr(i) for i in conn.subroutines[-1].instructions]
        except Exception:
            ctx.count("out_of_range_rejected" if out else "typed_in_range_rejected_loudly")
            return ctx.case(case, True)
        got = [d[1][2:5] for d in descr if d[0] == "meas_basis"]
        if out or got != [rots]:
            ctx.fail(case, f"silently altered: measure(basis_rotations={tuple(rots)}) was compiled and sent without error as meas_basis with rotations {got}")
        else:
            ctx.count("in_range_twins_ok")
        return ctx.case(case, True)
    elif kind == "nv-hw-rot":
        from netqasm.lang import operand as op_
        from netqasm.lang.encoding import RegisterName
        from netqasm.lang.instr import core as core_
        from netqasm.lang.instr import vanilla as van_
        from netqasm.lang.instr.flavour import NVFlavour
        from netqasm.lang.parsing import deserialize
        from netqasm.lang.subroutine import Subroutine
        from netqasm.runtime.settings import set_is_using_hardware
        from netqasm.sdk.transpile import NVSubroutineTranspiler
        import fractions
        m, n_, d_ = case["mnemonic"], case["n"], case["d"]
        cls = {"rot_x": van_.RotXInstruction, "rot_y": van_.RotYInstruction, "rot_z": van_.RotZInstruction}[m]
        Q = op_.Register(RegisterName.Q, 0)
        ins = [core_.SetInstruction.from_operands([Q, op_.Immediate(0)]), cls.from_operands([Q, op_.Immediate(n_), op_.Immediate(d_)])]
        ctx.count("hardware_mode_rotations")
        set_is_using_hardware(True)
        try:
            sub = NVSubroutineTranspiler(Subroutine(instructions=ins, app_id=0)).transpile()
            raw = bytes(sub)
            dec = deserialize(raw, flavour=NVFlavour())
        except Exception:
            ctx.count("out_of_range_rejected" if out else "typed_in_range_rejected_loudly")
            return ctx.case(case, True)
        finally:
            set_is_using_hardware(False)
        rots = [(i.angle_num.value, i.angle_denom.value) for i in dec.instructions if i.mnemonic.startswith("rot_")]
        turn = sum(fractions.Fraction(a, 2 ** b) for a, b in rots) % 2
        want = (fractions.Fraction(n_, 1) / fractions.Fraction(2) ** d_) % 2
        if out or turn != want:
            ctx.fail(case, f"silently altered: {m} Q0 {n_} {d_} on the hardware setting was transpiled and encoded without error as rotation(s) {rots}"
                           + ("" if out else f" (angle {turn} pi instead of {want} pi)"))
        else:
            ctx.count("in_range_twins_ok")
        return ctx.case(case, True)
    elif kind in ("debug-branch", "nv-branch"):
        from netqasm.lang import operand as op_
        from netqasm.lang.encoding import RegisterName
        from netqasm.lang.instr import core as core_
        from netqasm.lang.instr.base import DebugInstruction
        from netqasm.lang.parsing import deserialize
        from netqasm.lang.subroutine import Subroutine
        v, m = case["value"], case["mnemonic"]
        R = lambda i: op_.Register(RegisterName.R, i)
        br = {"jmp": lambda: core_.JmpInstruction.from_operands([op_.Immediate(v)]),
              "bez": lambda: core_.BezInstruction.from_operands([R(1), op_.Immediate(v)]),
              "beq": lambda: core_.BeqInstruction.from_operands([R(1), R(2), op_.Immediate(v)]),
              "blt": lambda: core_.BltInstruction.from_operands([R(1), R(2), op_.Immediate(v)])}[m]()
        body = [core_.SetInstruction(reg=R(1), imm=op_.Immediate(0)), core_.SetInstruction(reg=R(2), imm=op_.Immediate(0)), br,
                core_.SetInstruction(reg=R(3), imm=op_.Immediate(7))]
        ctx.count("edge_branch_targets")
        try:
            if kind == "debug-branch":
                ins = [DebugInstruction(text="c")] * case["comments"] + body
                sub = Subroutine(instructions=list(ins), app_id=0)
                # in-memory numbering counts the comments: a target inside the listing moves, one outside stays as it is
                n = case["comments"]
                want = v - n if n <= v <= len(ins) else (0 if 0 <= v < n else v)
                raw = bytes(sub)
                dec = deserialize(raw)
            else:
                from netqasm.lang.instr.flavour import NVFlavour
                from netqasm.sdk.transpile import NVSubroutineTranspiler
                sub = NVSubroutineTranspiler(Subroutine(instructions=list(body), app_id=0)).transpile()
                want = v
                raw = bytes(sub)
                dec = deserialize(raw, flavour=NVFlavour())
        except Exception:
            ctx.count("out_of_range_rejected" if out else "typed_in_range_rejected_loudly")
            return ctx.case(case, True)
        got = [i.line.value for i in dec.instructions if hasattr(i, "line")]
        if got != [want]:
            ctx.fail(case, f"silently altered: {m} with target {v} ({'listing with ' + str(case['comments']) + ' debug comment(s)' if kind == 'debug-branch' else 'through the NV transpiler'}) "
                           f"was encoded without error and decodes with target {got}")
        else:
            ctx.count("in_range_twins_ok")
        return ctx.case(case, True)
    elif kind == "carrier":
        from netqasm.lang import operand as op_
        from netqasm.lang.encoding import RegisterName
        from netqasm.lang.instr import core as core_
        from netqasm.lang.parsing import deserialize
        from netqasm.lang.subroutine import Subroutine
        from netqasm.sdk.futures import BaseFuture

        class Carrier(int):
            """An int subclass in the way of the SDK's BaseFuture: raw value 0, the value it stands for in __int__ and comparisons."""
            def __new__(cls, v):
                o = int.__new__(cls, 0)
                o.v = v
                return o
            __int__ = __index__ = lambda self: self.v
            __lt__ = lambda self, o: self.v < int(o)
            __le__ = lambda self, o: self.v <= int(o)
            __gt__ = lambda self, o: self.v > int(o)
            __ge__ = lambda self, o: self.v >= int(o)
            __eq__ = lambda self, o: self.v == o
            __hash__ = lambda self: hash(self.v)
            __str__ = __repr__ = lambda self: str(self.v)
        if case.get("plain"):
            class Carrier(int):  # noqa: F811
                """An int subclass that carries the value it stands for in __int__ / __index__ only."""
                def __new__(cls, v):
                    o = int.__new__(cls, 0)
                    o.v = v
                    return o
                __int__ = __index__ = lambda self: self.v
                __str__ = __repr__ = lambda self: str(self.v)
        ctx.count("carrier_operands")
        v = case["value"]
        site = case["site"]

        def build(x):
            R = lambda i: op_.Register(RegisterName.R, i)
            app, ver = 3, (1, 2)
            if site == "reg":
                ins = core_.RetRegInstruction(reg=R(x))
            elif site == "addr":
                ins = core_.RetArrInstruction(address=op_.Address(x))
            elif site == "entry":
                ins = core_.StoreInstruction(reg=R(1), entry=op_.ArrayEntry(op_.Address(2), R(x)))
            elif site == "slice":
                ins = core_.WaitAllInstruction(slice=op_.ArraySlice(op_.Address(2), R(1), R(x)))
            else:
                ins = core_.RetRegInstruction(reg=R(1))
                if site == "app":
                    app = x
                else:
                    ver = (1, x)
            return bytes(Subroutine(instructions=[ins], netqasm_version=ver, app_id=app))
        try:
            raw = build(Carrier(v))
        except Exception:
            ctx.count("out_of_range_rejected" if case["expect"] == "out" else "typed_in_range_rejected_loudly")
            return ctx.case(case, True)
        try:
            twin = build(v)
        except Exception:
            twin = None
        if twin is None or raw != twin:
            dec = deserialize(raw)
            ctx.fail(case, f"silently altered: an integer-like object standing for {v} (raw int 0, value in __int__: what a resolved Future is) "
                           f"as {site} was encoded without error as {[str(i) for i in dec.instructions]} app {dec.app_id} "
                           f"version {tuple(dec.netqasm_version)}" + ("" if twin is not None else f"; the plain int {v} is refused there"))
        else:
            ctx.count("in_range_twins_ok")
        return ctx.case(case, True)
    elif kind == "sdk-resolved-future":
        # a measurement outcome that the host already knows (the handle is an int whose value lives in __int__) used as an operand
        # of the next subroutine: what is encoded must be that value
        from vf.harness.pipeline import Pipe
        ctx.count("resolved_future_operands")
        want = case["outcome"]
        try:
            p_ = Pipe(script=[want, 0, 0, 0], max_qubits=3)
            with p_.conn as conn:
                q = Qubit(conn)
                if want:
                    q.X()
                m = q.measure()
                conn.flush()
                q2 = Qubit(conn)
                if case["use"] == "rot":
                    q2.rot_X(n=m, d=1)
                elif case["use"] == "array-init":
                    conn.new_array(2, init_values=[m, 7])
                else:
                    with conn.loop(m):
                        q2.H()
                conn.flush()
                sub = conn.subroutines[-1]
                descr = [codec.describe_instr(i) for i in sub.instructions]
                q2.measure()
        except Exception as e:
            ctx.count("resolved_future_operand_refused")       # refusing a Future as a literal with an error is not a silent alteration
            return ctx.case(case, True)
        if case["use"] == "rot":
            ok = any(d[0] == "rot_x" and d[1][1:] == [want, 1] for d in descr)
        elif case["use"] == "array-init":
            vals = [d[1][1] for d in descr if d[0] == "set" and d[1][0][0] == "R"]
            ok = want in vals and 7 in vals and (want != 1 or vals.count(1) >= 1)
            ok = ok and any(d[0] == "store" for d in descr) and _array_init_first(descr) == want
        else:
            stops = [d[1][1] for d in descr if d[0] == "set" and d[1][0][0] == "R"]
            ok = want in stops[:2]        # set <counter> 0; set <scratch> <stop>
        if ok:
            ctx.count("in_range_twins_ok")
        else:
            ctx.fail(case, f"silently altered: a resolved measurement handle with value {want} used as {case['use']} operand was encoded as "
                           f"{[d for d in descr if d[0] in ('rot_x', 'set', 'store')][:8]}")
    elif kind == "sdk-rot-hw":
        # hardware angle normalisation (global switch used for runs on real hardware) rescales n * pi / 2^d to sixteenths of pi
        # and may drop whole turns - but only of a numerator the instruction could hold in the first place
        from netqasm.runtime.settings import set_is_using_hardware
        from netqasm.sdk.transpile import NVSubroutineTranspiler
        mn = "rot_" + case["axis"].lower()

        def prog(conn):
            set_is_using_hardware(True)       # (the harness resets the global switch when it builds the connection)
            q = Qubit(conn)
            getattr(q, "rot_" + case["axis"])(n=case["n"], d=case["d"])
        try:
            ctx.count("hardware_mode_rotations")
            from netqasm.lang.instr.flavour import NVFlavour
            sdk(prog, lambda descr, subs: False, compiler=NVSubroutineTranspiler, flavour=NVFlavour())
        finally:
            set_is_using_hardware(False)
    elif kind == "sdk-array-init":
        def prog(conn):
            conn.new_array(2, init_values=[_typed(case["value"], case.get("vtype")), 1])
        sdk(prog, lambda descr, subs: any(d[0] == "set" and d[1][1] == case["value"] for d in descr))
    elif kind == "sdk-add":
        def prog(conn):
            a = conn.new_array(1, init_values=[1])
            a.get_future_index(0).add(_typed(case["value"], case.get("vtype")))
        sdk(prog, lambda descr, subs: any(d[0] == "set" and d[1][1] == case["value"] for d in descr))
    elif kind == "sdk-loop":
        def prog(conn):
            a = conn.new_array(1, init_values=[0])
            with conn.loop(case["stop"]):
                a.get_future_index(0).add(1)
        sdk(prog, lambda descr, subs: any(d[0] == "set" and d[1][1] == case["stop"] for d in descr), )
    elif kind in ("sdk-appid", "sdk-appid-precompiled"):
        from vf.harness import controller as hc

        def run():
            hc.reset_globals()
            hc.set_node_ids({"alice": 0})
            ctrl = hc.make_node("alice", stack=hc.RecordingStack())
            conn = hc.PipelineConnection("alice", ctrl, app_id=case["app_id"])
            with conn:
                q = Qubit(conn)
                q.X()
                if kind == "sdk-appid-precompiled":
                    sub = conn.compile()
                    sub.instantiate(conn.app_id, {})
                    conn.commit_subroutine(sub)
            return conn.subroutines
        try:
            subs = run()
        except Exception as e:
            if out:
                ctx.count("out_of_range_rejected")
            else:
                ctx.fail(case, f"in-range SDK twin is rejected: {type(e).__name__}: {str(e)[:160]}")
            ctx.case(case, nontrivial=out)
            return
        if subs and all(s.app_id == case["app_id"] for s in subs):
            if out:
                ctx.fail(case, "harness: out-of-range app id round-tripped")
            else:
                ctx.count("in_range_twins_ok")
        else:
            ctx.fail(case, f"silently altered: app id {case['app_id']} reached the controller as {[s.app_id for s in subs]}")
    else:
        raise ValueError(kind)
    ctx.case(case, nontrivial=out)
