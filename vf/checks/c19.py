"""C19 — float angles are approximated within tolerance by encodable rotations (contract monitor).

An icontract postcondition is attached from outside to get_angle_spec_from_float (both the defining
module and the builder's from-import binding) and evaluated with 60-digit decimal arithmetic on
hostile inputs; the SDK route q.rot_X/Y/Z(angle=...) is driven through a real connection and the
emitted rotation instructions are checked with the same oracle.
"""
from __future__ import annotations

import math
from decimal import Decimal, getcontext

PID = "C19"
LEVEL = "exploration"
RULE = ("angles: dyadic multiples of pi (n*pi/2^d, d up to 40), +-0, +-tiny (1e-20..1e-9), 2*pi*k +- eps, huge (up to the largest double), "
        "uniform and log-uniform random, each with tolerances 1e-2..1e-9 (direct calls) or the SDK default tolerance "
        "(q.rot_X/Y/Z(angle=..) through a connection, instructions read from the flushed subroutine). Oracle: every step "
        "has integer 0<=n<=255 and 0<=d<=255, at most 64 steps, and |sum n*pi/2^d - angle| mod 2pi <= tol + 1e-14 "
        "(the float is taken as the exact angle; 420-digit arithmetic)."
        ' The SDK route also passes explicit (n, d) together with angle (documented as ignored), including angles of exactly zero. '
        ' Angles also as numpy float16 / float32 scalars. '
        "Non-trivial = angle not within tol of 0 mod 2pi "
        "(at least one step expected); distinct = distinct (angle, tol, route).")
ASSUMPTIONS = [
    "angle error is measured with 420-digit decimal arithmetic against the float taken as the exact angle; 1e-14 is allowed for the arithmetic of the decomposition itself",
    "known finding angle-spec:tolerance-below-2e-7-unreachable: steps with exponent >= 32 are dropped by design, so tolerances below 255*pi/2^32 ~ 1.87e-7 are honoured only up to that bound",
]
SHARDS = {"quick": 1, "thorough": 16}
MIN_COUNTERS = {"postcondition_evaluations": 1000, "sdk_route_rotations": 20}

getcontext().prec = 420       # the largest finite double has 309 digits before the point: its remainder modulo 2 pi needs that many and some


def _pi():
    """pi to the context's precision (the series of the decimal module's documentation)."""
    getcontext().prec += 4
    three = Decimal(3)
    lasts, t, s_, n, na, d, da = 0, three, 3, 1, 0, 0, 24
    while s_ != lasts:
        lasts = s_
        n, na = n + na, na + 8
        d, da = d + da, da + 32
        t = (t * n) / d
        s_ += t
    getcontext().prec -= 4
    return +s_


PI = _pi()
assert str(PI).startswith("3.14159265358979323846264338327950288419716939937510582097494459230781640628620899")
TWO_PI = 2 * PI
DROP_BOUND = Decimal(255) * PI / Decimal(2**32)

_state = {"viol": None, "ctx": None}


class AngleBroken(Exception):
    pass


def judge(angle: float, tol: float, nds):
    """Returns (ok, message, key)."""
    angle, tol = float(angle), float(tol)     # numpy scalars and ints are finite angles too
    if not isinstance(nds, list) or len(nds) > 64:
        return False, f"result is not a list of at most 64 steps: {str(nds)[:80]}", None
    total = Decimal(0)
    for step in nds:
        try:
            n, d = step
        except Exception:
            return False, f"step {step!r} is not a pair", None
        if not (isinstance(n, int) and isinstance(d, int)) or isinstance(n, bool):
            return False, f"step {step!r} is not integral", None
        if not (0 <= n <= 255 and 0 <= d <= 255):
            return False, f"step (n={n}, d={d}) is not encodable in 8-bit fields", None
        total += Decimal(n) * PI / (Decimal(2) ** d)
    err = (total - Decimal(angle)) % TWO_PI
    if err < 0:
        err += TWO_PI
    err = min(err, TWO_PI - err)
    allowed = Decimal(tol) + Decimal("1e-14")      # the float IS the angle: no allowance for its own rounding
    if err <= allowed:
        return True, "", None
    key = None
    if Decimal(tol) < DROP_BOUND and err <= DROP_BOUND + allowed:
        key = "angle-spec:tolerance-below-2e-7-unreachable"
    return False, f"angle {angle!r} tol {tol!r}: steps {nds} miss the angle by {float(err):.3e} rad (> {float(allowed):.3e})", key


def setup(ctx):
    import icontract
    import netqasm.sdk.builder as builder
    import netqasm.sdk.toolbox as toolbox
    import netqasm.sdk.toolbox.state_prep as sp
    _state["ctx"] = ctx
    if _state.get("installed"):
        return

    def within_tolerance(angle, tol, result):
        ctx_ = _state["ctx"]
        ctx_.count("postcondition_evaluations")
        ok, msg, key = judge(angle, tol, result)
        if not ok:
            _state["viol"] = (msg, key)  # record; the driver reports it with the case as witness
        return True

    wrapped = icontract.ensure(within_tolerance, error=AngleBroken)(sp.get_angle_spec_from_float)
    sp.get_angle_spec_from_float = wrapped
    if hasattr(builder, "get_angle_spec_from_float"):
        builder.get_angle_spec_from_float = wrapped
    if hasattr(toolbox, "get_angle_spec_from_float"):
        toolbox.get_angle_spec_from_float = wrapped
    _state["installed"] = True


TOLS = [1e-2, 1e-3, 1e-4, 1e-5, 1e-6, 5e-7, 2e-7, 1e-7, 1e-8, 1e-9]


def _angles(ctx, n_random):
    rng = ctx.rng
    pi = math.pi
    out = []
    for d in list(range(0, 12)) + [16, 20, 24, 31, 32, 33, 40]:
        for n in (1, 2, 3, 5, 127, 128, 255, 256, 257, 2**d, 2**d + 1, 2 ** (d + 1) - 1, 2 ** (d + 1)):
            out.append(n * pi / 2**d)
            out.append(-n * pi / 2**d)
    out += [0.0, -0.0]
    for e in range(9, 21):
        out += [10.0**-e, -(10.0**-e), 3.3 * 10.0**-e]
    for k in (1, 2, 3, 10, 1000):
        for eps in (0.0, 1e-16, 1e-12, 1e-9, 1e-7, 1e-5, 1e-4, 1e-3):
            out += [2 * pi * k + eps, 2 * pi * k - eps, -2 * pi * k + eps, -2 * pi * k - eps]
    for e in (2, 3, 6, 9, 12, 15, 22, 40, 100, 300):
        out += [10.0**e, -(10.0**e), 1.2345678 * 10.0**e]
    out += [1.7976931348623157e308, -1.7976931348623157e308, 63.9, 64.0, 64.1, -64.1, 2.0**20, 2.0**53, 2.0**53 + 2]
    # exact float multiples of the doubles pi and 2*pi (k * math.tau is NOT a whole number of turns: the double is 2.4e-16 short)
    for j in (1, 2, 3, 5, 10, 20, 30, 40, 41, 45, 50, 52, 53, 60, 100):
        out += [pi * 2.0**j, -pi * 2.0**j, 2 * pi * 2.0**j, 3 * pi * 2.0**j]
    out += [2 * pi * k_ for k_ in (1, 2, 3, 12, 20, 1000, 12345)]
    out += [math.nextafter(2 * pi, 0), math.nextafter(2 * pi, 7), math.nextafter(pi, 0), math.nextafter(pi, 4),
            math.nextafter(0.0, 1), 5e-324, 2.2250738585072014e-308]
    for _ in range(n_random):
        r = rng.random()
        if r < 0.5:
            out.append(rng.uniform(-4 * pi, 4 * pi))
        elif r < 0.8:
            out.append(rng.choice([-1, 1]) * 10 ** rng.uniform(-12, rng.choice([7, 7, 18, 300])))
        else:
            out.append(rng.randrange(-2**14, 2**14) * pi / 2 ** rng.randrange(0, 20) + rng.choice([0, 1e-10, -1e-10, 1e-6]))
    return out


def cases(ctx):
    k = 0
    for a in _angles(ctx, ctx.n(1500, 300000) * ctx.nshards):
        for tol in (TOLS if not ctx.quick else ctx.rng.sample(TOLS, 4)):
            k += 1
            if ctx.mine(k):
                yield {"kind": "direct", "angle": a, "tol": tol}
    # large angles in the decades where the rounding of a plain float reduction (2.4e-16 per turn) comes close to the tolerance that
    # was asked for: |angle| = tol * 10^(14 .. 17.5), both signs (an error budget that is spent twice shows only here)
    for tol in TOLS[:6]:
        for _ in range(ctx.n(12, 3000)):
            k += 1
            a_ = ctx.rng.choice([-1, 1]) * tol * 10 ** ctx.rng.uniform(14, 17.5)
            if ctx.mine(k):
                yield {"kind": "direct", "angle": a_, "tol": tol, "family": "large-relative-to-tolerance"}
    # the same angle asked for several times in one process, at tolerances that come close to each other, looser first / stricter
    # first: every answer meets the tolerance it was asked for
    for i, a in enumerate(_angles(ctx, ctx.n(400, 40000) * ctx.nshards)):
        if ctx.mine(i):
            t = ctx.rng.choice([1e-2, 1e-3, 1e-4, 1e-4, 1e-5, 1e-6])
            seq = [t * 30, t * 1.9, t * 1.4, t, t * 1.1, t / 3] if i % 2 == 0 else [t / 3, t, t * 1.9, t * 1.01, t * 30, t]
            yield {"kind": "direct-sequence", "angle": a, "tols": seq}
    # angles handed over as numpy float16 / float32 scalars (results of array arithmetic)
    j = 0
    for a in [3.0, -26.2, 0.7, 6283.0, 32.606396, -1.5, 100.0, 0.001] + [ctx.rng.uniform(-50, 50) for _ in range(10 if ctx.quick else 2000)]:
        for ty in ("float16", "float32"):
            j += 1
            if ctx.mine(j):
                yield {"kind": "direct", "angle": a, "tol": 1e-4, "type": ty}
    sdk = _angles(ctx, 40 if ctx.quick else 3000)
    for i, a in enumerate(sdk):
        if ctx.mine(i) and (not ctx.quick or i % 7 == 0):
            yield {"kind": "sdk", "angle": a, "axis": "XYZ"[i % 3]}
    # angles given as other finite numeric types than the builtin float
    for i, (a, tp) in enumerate([(1, "int"), (3, "int"), (-2, "int"), (0.7, "float32"), (2.5, "float32"), (1.1, "float64"), (7, "int"), (5.5, "float32"),
                                 (3.0, "float16"), (-26.2, "float16"), (6283.0, "float32")]):
        if ctx.mine(i):
            yield {"kind": "sdk", "angle": a, "axis": "XYZ"[i % 3], "type": tp}
    # `angle` given together with explicit (n, d): documented as "n and d are ignored", also for angles of exactly zero
    import math as _m
    j = 0
    for a in [0.0, -0.0, 2 * _m.pi, -2 * _m.pi, 1e-9, _m.pi / 2, 0.7, -3.0] + ([ctx.rng.uniform(-7, 7) for _ in range(40)] if not ctx.quick else []):
        for nd in ([1, 1], [3, 2], [255, 0]):
            j += 1
            if ctx.mine(j) and (not ctx.quick or j % 2 == 0 or a == 0.0):
                yield {"kind": "sdk", "angle": a, "axis": "XYZ"[j % 3], "nd": nd}
    # a float rotation that is refused (not a finite number) between two rotations by the same valid angle
    for i, a in enumerate([0.7, -1.234, 3.0, 5.5] + [ctx.rng.uniform(-7, 7) for _ in range(4 if ctx.quick else 200)]):
        if ctx.mine(i):
            yield {"kind": "sdk", "angle": a, "axis": "XYZ"[i % 3], "refused_between": ["inf", "nan", "-inf", "text"][i % 4]}
    # two applications of one process (threads) queue float rotations on their own connections at the same time
    if ctx.shard == 0:
        yield {"kind": "sdk-two-threads", "angles": [[ctx.rng.uniform(-7, 7) for _ in range(ctx.n(150, 3000))] for _ in range(2)]}
    # the same float angle used on a FutureQubit (EPR context) and afterwards on ordinary qubits
    for i, a in enumerate([0.7, 1.234, -0.4, 2.0, 5.5] + [ctx.rng.uniform(0.05, 6.2) for _ in range(4 if ctx.quick else 60)]):
        if ctx.mine(i):
            yield {"kind": "sdk-future-qubit", "angle": a, "axis": "XYZ"[i % 3]}


def _nontrivial(angle, tol):
    r = Decimal(angle) % TWO_PI
    if r < 0:
        r += TWO_PI
    return min(r, TWO_PI - r) > Decimal(tol)


def run_case(ctx, case):
    import netqasm.sdk.toolbox.state_prep as sp
    _state["ctx"] = ctx
    _state["viol"] = None
    if case["kind"] == "sdk-two-threads":
        return _two_threads(ctx, case)
    a = case["angle"]
    if case["kind"] == "direct-sequence":
        for tol in case["tols"] + case["tols"][:2]:
            ctx.count("repeated_angle_calls")
            try:
                handed = sp.get_angle_spec_from_float(a, tol)
                if isinstance(handed, list):
                    # the caller consumes the list it was handed (pops the steps as it emits them, appends a marker): the next
                    # answer for the same angle is computed for that call, not taken from what this caller left behind
                    while handed:
                        handed.pop()
                    handed.append((255, 0))
            except Exception as e:
                ctx.fail(case, f"angle {a!r} tol {tol!r} (asked after {case['tols'][:case['tols'].index(tol)]}): raised {type(e).__name__}: {e}")
                break
            if _state["viol"]:
                ctx.fail(case, f"asked at tolerances {case['tols']} in this order: " + _state["viol"][0], key=_state["viol"][1])
                break
        return ctx.case(case, True)
    if case["kind"] == "direct":
        tol = case["tol"]
        arg = a
        if case.get("type"):
            import numpy as np
            arg = getattr(np, case["type"])(a)      # the angle as a narrower float type: its value is still an exact finite number
            a = float(arg)
            ctx.count("narrow_float_angles")
        try:
            res = sp.get_angle_spec_from_float(arg, tol)
        except Exception as e:
            ctx.fail(case, f"angle {a!r} tol {tol!r}: raised {type(e).__name__}: {e}")
            ctx.case(case, _nontrivial(a, tol))
            return
        if _state["viol"]:
            ctx.fail(case, _state["viol"][0], key=_state["viol"][1])
        if _nontrivial(a, tol) and res:
            ctx.count("nonempty_decompositions")
        ctx.case(case, _nontrivial(a, tol))
        return
    # SDK route: rotation instructions of the flushed subroutine
    from vf.harness.sdkprobe import emitted_subroutines
    tol = 1e-4  # documented default of the decomposition

    if case["kind"] == "sdk-future-qubit":
        return _future_qubit(ctx, case)
    arg = a
    if case.get("type"):
        import fractions
        import numpy as np
        arg = {"int": int, "float32": np.float32, "float64": np.float64, "float16": np.float16,
               "Fraction": lambda v: fractions.Fraction(v)}[case["type"]](a)
        a = float(arg)

    def prog(conn):
        from netqasm.sdk.qubit import Qubit
        q = Qubit(conn)
        if case.get("nd"):
            ctx.count("sdk_route_angle_with_explicit_n_d")
            getattr(q, "rot_" + case["axis"])(n=case["nd"][0], d=case["nd"][1], angle=arg)
        else:
            getattr(q, "rot_" + case["axis"])(angle=arg)
        if case.get("refused_between"):
            bad = {"inf": float("inf"), "-inf": float("-inf"), "nan": float("nan"), "text": "a quarter turn"}[case["refused_between"]]
            try:
                getattr(q, "rot_" + case["axis"])(angle=bad)
                _state["accepted_bad"] = True
            except Exception:
                ctx.count("non_finite_angles_refused")
            getattr(q, "rot_" + case["axis"])(angle=arg)       # the application carries on with the valid angle

    _state["accepted_bad"] = False
    try:
        subs = emitted_subroutines(prog)
    except Exception as e:
        ctx.fail(case, f"q.rot_{case['axis']}(angle={a!r}) failed to compile/encode: {type(e).__name__}: {e}",
                 key=_state["viol"][1] if _state["viol"] else None)
        ctx.case(case, _nontrivial(a, tol))
        return
    nds = []
    for sub in subs:
        for ins in sub.instructions:
            if ins.mnemonic == "rot_" + case["axis"].lower():
                nds.append((ins.angle_num.value, ins.angle_denom.value))
                ctx.count("sdk_route_rotations")
            elif ins.mnemonic.startswith("rot_"):
                ctx.fail(case, f"rotation about the wrong axis emitted: {ins}")
    if case.get("refused_between") and not _state["accepted_bad"]:
        # two rotations by the same angle were emitted: the same decomposition twice
        half = len(nds) // 2
        if len(nds) % 2 or nds[:half] != nds[half:]:
            ctx.fail(case, f"SDK route: rot_{case['axis']}(angle={a!r}), a refused rot_{case['axis']}(angle={case['refused_between']}), "
                           f"rot_{case['axis']}(angle={a!r}) again: the emitted rotation steps are {nds} - not the same steps twice")
            return ctx.case(case, True)
        nds = nds[:half]
    ok, msg, key = judge(a, tol, nds)
    if not ok:
        ctx.fail(case, "SDK route: " + msg, key=key)
    elif _state["viol"]:
        ctx.fail(case, _state["viol"][0], key=_state["viol"][1])
    ctx.case(case, _nontrivial(a, tol))


def _two_threads(ctx, case):
    import sys
    import threading
    import netqasm.sdk.toolbox.state_prep as sp
    from netqasm.sdk.qubit import Qubit
    from vf.harness import controller as hc
    hc.reset_globals()
    hc.set_node_ids({"alice": 0, "bob": 1})
    conns = [hc.PipelineConnection(n_, hc.make_node(n_, node_id=i_, stack=hc.RecordingStack()), max_qubits=2) for i_, n_ in enumerate(("alice", "bob"))]
    qs = [Qubit(c) for c in conns]
    for c in conns:
        c.flush()
    barrier = threading.Barrier(2)
    errs = []

    def work(t):
        barrier.wait()
        try:
            for j, a in enumerate(case["angles"][t]):
                getattr(qs[t], "rot_" + "XYZ"[(j + t) % 3])(angle=a)
        except Exception as e:      # noqa
            errs.append(f"application {t}: {type(e).__name__}: {str(e)[:120]}")
    old = sys.getswitchinterval()
    sys.setswitchinterval(1e-6)
    try:
        ths = [threading.Thread(target=work, args=(t,)) for t in range(2)]
        [t.start() for t in ths]
        [t.join(300) for t in ths]
    finally:
        sys.setswitchinterval(old)
    if errs:
        ctx.fail(case, "two applications queueing float rotations at the same time: " + errs[0])
        return ctx.case(case, True)
    for t, c in enumerate(conns):
        c.flush()
        got = [(i.mnemonic, i.angle_num.value, i.angle_denom.value) for i in c.subroutines[-1].instructions if i.mnemonic.startswith("rot_")]
        want = []
        for j, a in enumerate(case["angles"][t]):
            want += [("rot_" + "xyz"[(j + t) % 3], n, d) for n, d in sp.get_angle_spec_from_float(a, 1e-4)]
        ctx.count("rotations_queued_by_two_threads", len(want))
        if got != want:
            i_ = next((k for k, (g, w) in enumerate(zip(got, want)) if g != w), min(len(got), len(want)))
            ctx.fail(case, f"two applications queueing float rotations at the same time: application {t} emitted {len(got)} rotation steps, "
                           f"its own angles give {len(want)}; first difference at step {i_}: {got[i_:i_ + 2]} vs {want[i_:i_ + 2]}")
            break
        qs[t].measure()
        c.flush()
    _state["viol"] = None
    ctx.case(case, True)


def _future_qubit(ctx, case):
    """q.rot_*(angle=a) on the FutureQubit of an EPR context, then the same angle on an ordinary qubit, then once more: every
    occurrence must emit a complete decomposition."""
    from netqasm.sdk.epr_socket import EPRSocket
    from netqasm.sdk.qubit import Qubit
    from vf.harness import controller as hc
    from vf.harness.link import LinkModel, PlannedRequest
    from vf.harness.pipeline import Pipe
    a, axis = case["angle"], case["axis"]
    es = EPRSocket("bob")
    link = LinkModel([PlannedRequest("create", "K", 1)], partners=False)
    pipe = Pipe(epr_sockets=[es], link=link, max_qubits=3)
    try:
        with pipe.conn as conn:
            with es.create_context(number=1) as (fq, pair):
                getattr(fq, "rot_" + axis)(angle=a)
                fq.measure()
            conn.flush()
            q = Qubit(conn)
            getattr(q, "rot_" + axis)(angle=a)
            q.measure()
            conn.flush()
            q2 = Qubit(conn)
            getattr(q2, "rot_" + axis)(angle=a)
            q2.measure()
            conn.flush()
    except (hc.ControllerFault, hc.Deadlock, hc.StepLimit) as e:
        ctx.fail(case, f"rotation on a FutureQubit: controller run failed: {e}")
        return ctx.case(case, True)
    tol = 1e-4
    for k, sub in enumerate(pipe.conn.subroutines):
        nds = [(i.angle_num.value, i.angle_denom.value) for i in sub.instructions if i.mnemonic == "rot_" + axis.lower()]
        ctx.count("sdk_route_rotations", len(nds))
        ok, msg, key = judge(a, tol, nds)
        if not ok:
            where = ["on the FutureQubit of an EPR context", "on an ordinary qubit after it was used on a FutureQubit", "on a third qubit"][min(k, 2)]
            ctx.fail(case, f"SDK route, rot_{axis}(angle={a!r}) {where}: " + msg, key=key)
            break
    ctx.case(case, _nontrivial(a, tol))
