"""C04 — the base executor implements the classical semantics and faults precisely (L2, lock-step differential).

Oracle: R-INTERP (vf/ref/interp.py) run on the same instruction list: program-counter trace, registers of all
four banks, arrays, unit-module allocation, shared-memory publications (observed at the moment a ret_*
executes), fault / no fault, fault line, and no partial effect of a faulting instruction.
"""
from __future__ import annotations

import re

from vf.gen import classical as gc
from vf.harness import codec, controller as hc, l2
from vf.ref import interp as ri

PID = "C04"
LEVEL = "exploration"
RULE = ("random instruction-level programs over the whole classical/array/allocation core set built directly from "
        "instruction classes: all four banks, arbitrary jump targets in [0, len], arrays of length 0..8, negative "
        "operands, moduli around 0/1, undefined registers and entries, double alloc / free of unallocated / index == "
        "len, wait_* on entries and slices; histories of 1-5 subroutines against the same application state and two "
        "applications side by side; 2 % of the subroutines accumulate values far beyond 32 and 53 bits by repeated doubling and then use addm / subm."
        ' Between returns the host copy of every returned array (all applications, after every subroutine, fault or not) must equal the ret_arr snapshot or the returned list itself. '
        "Non-trivial = the reference run executed >= 8 instructions in some subroutine of "
        "the history and the history was judged to its end; distinct = distinct history description. Histories that "
        "reach a situation outside the property's fault list (branch on an undefined register, negative "
        "targets/lengths/indices/addresses, malformed slices) or the step bound are discarded from that point and counted.")
ASSUMPTIONS = [
    "R-INTERP is the trusted reference for the instruction semantics (literal, independent of netqasm)",
    "domain restrictions: branching on an undefined register, negative jump targets, negative array lengths / indices / slice bounds / qubit addresses and slices with start > stop or stop > len are not judged",
    "integer arithmetic is unbounded in simulation mode (no 32-bit wrap), as in the executor",
    "step bound 600 per subroutine; a wait that the reference says blocks must be observed blocking and ends the history",
]
SHARDS = {"quick": 4, "thorough": 16}
MIN_COUNTERS = {"subroutines_judged": 500, "faults_compared": 50, "branches_taken": 100, "blocked_waits_observed": 5}
MIN_NONTRIVIAL = {"quick": 200, "thorough": 2000}


def cases(ctx):
    rng = ctx.rng
    for _ in range(ctx.n(4000, 500000)):
        napps = 1 if rng.random() < 0.7 else 2
        units = [rng.choice([1, 2, 3, 4]) for _ in range(napps)]
        subs = []
        seen = set()
        shadow = [ri.AppState(u) for u in units]  # generation-time reference states (guided generator)
        for _ in range(rng.randrange(1, 6)):
            app = rng.randrange(napps)
            r = rng.random()
            if r < 0.06:
                prog = gc.gen_return_twice(rng)
            elif r < 0.08:
                prog = gc.gen_big_accumulate(rng)       # values far beyond 32 (and 53) bits, reached by arithmetic
            elif r < 0.38:
                prog = gc.gen_program(rng, units[app], max_len=rng.choice([12, 20, 30]), first=app not in seen)
            else:
                prog = gc.gen_program_guided(rng, shadow[app], rng.choice([8, 14, 22, 30]))
            subs.append({"app": app, "prog": prog})
            seen.add(app)
            out, _ = ri.run_program(shadow[app], prog, step_bound=600)
            if out != "done":
                break
        # (every fifth history runs under the hardware setting, where register and array values are also checked for width:
        # a 32-bit overflow is then a loud refusal, everything else is as on the simulator)
        yield {"kind": "history", "units": units, "subs": subs, "hw": rng.random() < 0.2, "again": rng.choice([None, None, None, None, "stop", "fresh-executor"])}


def run_case(ctx, case):
    from netqasm.runtime.settings import set_is_using_hardware
    set_is_using_hardware(bool(case.get("hw")))
    try:
        if case.get("hw"):
            ctx.count("histories_on_the_hardware_setting")
        return _run_case(ctx, case)
    finally:
        set_is_using_hardware(False)


def _run_case(ctx, case):
    side = l2.ExecSide(name="node", step_limit=700)
    from netqasm.runtime.settings import get_is_using_hardware, set_is_using_hardware
    set_is_using_hardware(bool(case.get("hw")))      # (building the executor side resets the global switch)
    assert get_is_using_hardware() == bool(case.get("hw"))
    nontrivial = False
    complete = True
    # every third history is run a second time on the same executor after all its applications were stopped and registered again:
    # a run after a stop behaves like a run on a fresh executor (whatever happened before the stop - also a fault)
    rounds = 2 if case.get("again") else 1
    sub_objs = []
    for round_ in range(rounds):
        round_tag = "" if round_ == 0 else (" [second run of the history, on a second executor that is handed the same Subroutine objects]" if case.get("again") == "fresh-executor"
                                            else " [second run of the history, after every application was stopped and registered again]")
        if round_ == 1:
            if not complete:
                break
            if case.get("again") == "fresh-executor":
                # ... or on ANOTHER executor (a second node started in the same process), which is handed the very Subroutine
                # objects the first one ran
                ctx.count("histories_run_again_on_a_second_executor")
                side = l2.ExecSide(name="node", step_limit=700)
                set_is_using_hardware(bool(case.get("hw")))
            else:
                ctx.count("histories_run_again_after_stop")
                for a in range(len(case["units"])):
                    hc.drive(side.ex.stop_application(a), side.ex, None)
                del side.ex.ret_log[:]
                del side.ex.ret_mismatch[:]
        refs = []
        for a, u in enumerate(case["units"]):
            side.init_app(a, u)
            refs.append(ri.AppState(u))
        for k, sub in enumerate(case["subs"]):
            app, prog = sub["app"], sub["prog"]
            before_other = [l2.ref_view(r) for r in refs]
            r_out, r_info = ri.run_program(refs[app], prog, step_bound=600)
            if r_out in ("ood", "bound"):
                ctx.count("discarded_" + r_out)
                complete = False
                break
            if round_ == 0:
                sub_objs.append(codec.mk_subroutine("vanilla", (0, 10), app, prog))
            e_out, e_info = side.run_subroutine(sub_objs[k])
            ctx.count("subroutines_judged")
            if len(r_info["trace"]) >= 8:
                nontrivial = True
            rt = r_info["trace"]
            ctx.count("branches_taken", sum(1 for x, y in zip(rt, rt[1:]) if y != x + 1))
            where = f"subroutine {k} (app {app})" + round_tag
            m_ = re.search(r"value (-?\d+) does not fit into (\d+) bits", str(e_info.get("exc", ""))) if case.get("hw") else None
            if m_ and -(2 ** (int(m_.group(2)) - 1)) <= int(m_.group(1)) <= 2 ** (int(m_.group(2)) - 1) - 1:
                ctx.fail(case, f"{where}: on the hardware setting the executor refused the value {m_.group(1)}, which fits {m_.group(2)} bits "
                               f"({e_info.get('exc', '')})")
                return ctx.case(case, nontrivial)
            if m_:
                # (a value that does not fit 32 bits is refused on the hardware setting - also when the reference, which does not model
                # widths, faults somewhere later for its own reason)
                ctx.count("discarded_hardware_width_refusals")
                complete = False
                break
            if e_out != r_out:
                ctx.fail(case, f"{where}: executor {e_out} {e_info.get('exc', '')} at {e_info.get('line')} but reference "
                               f"{r_out} {r_info.get('what', '')} at {r_info.get('line')}")
                return ctx.case(case, nontrivial)
            want_trace = rt if r_out == "done" else rt[:-1]
            if e_info["trace"] != want_trace:
                i = next((j for j, (x, y) in enumerate(zip(e_info["trace"], want_trace)) if x != y), min(len(e_info["trace"]), len(want_trace)))
                ctx.fail(case, f"{where}: program-counter trace diverges at step {i}: executor {e_info['trace'][max(0, i - 2):i + 3]} "
                               f"reference {want_trace[max(0, i - 2):i + 3]}")
                return ctx.case(case, nontrivial)
            if r_out == "fault":
                ctx.count("faults_compared")
                if e_info["line"] != r_info["line"]:
                    ctx.fail(case, f"{where}: fault reported at line {e_info['line']} ({e_info['exc']}), reference faults at "
                                   f"line {r_info['line']} ({r_info['what']})")
                    return ctx.case(case, nontrivial)
            if r_out == "blocked":
                ctx.count("blocked_waits_observed")
            for a in range(len(refs)):
                d = l2.diff_views(side.app_view(a), l2.ref_view(refs[a]))
                if d:
                    tag = "" if a == app else f" (app {a} was not running: isolation)"
                    ctx.fail(case, f"{where}: after {r_out}{' at line ' + str(r_info.get('line')) if r_out != 'done' else ''}, app {a} {d}{tag}")
                    return ctx.case(case, nontrivial)
            # host-visible shared memory received the publications
            from netqasm.sdk.shared_memory import SharedMemoryManager
            shm = SharedMemoryManager.get_shared_memory("node", app)
            for name, v in refs[app].shared_regs.items():
                if shm is None or shm.get_register(name) != v:
                    ctx.fail(case, f"{where}: returned register {name}={v} not visible in the host's shared memory "
                                   f"({None if shm is None else shm.get_register(name)})")
                    return ctx.case(case, nontrivial)
            if side.ex.ret_mismatch:
                ctx.fail(case, f"{where}: {side.ex.ret_mismatch[0]}")
                return ctx.case(case, nontrivial)
            # Between returns the host's copy of a returned array is either the snapshot taken by ret_arr or (in-process shared
            # memory, which the SDK relies on across subroutines) the returned list itself, i.e. it follows later stores to THAT
            # array until the address is re-declared.  Anything else - e.g. wiped by a later `array` - is not prescribed by any
            # instruction.  Checked for every application after every subroutine, fault or not.
            for a in range(len(refs)):
                shm_a = SharedMemoryManager.get_shared_memory("node", a)
                for addr, snap in refs[a].shared_arrays.items():
                    ctx.count("host_arrays_compared")
                    try:
                        host = list(shm_a._get_array(addr))
                    except Exception:
                        ctx.fail(case, f"{where}: returned array @{addr} of app {a} not visible in the host's shared memory")
                        return ctx.case(case, nontrivial)
                    alias = list(refs[a].shared_alias[addr])
                    if host != snap and host != alias:
                        ctx.fail(case, f"{where}: after {r_out} the host reads {host} from @{addr} of app {a}; the last ret_arr returned "
                                       f"{snap} and the returned array now holds {alias}")
                        return ctx.case(case, nontrivial)
            # no partial effect on the physical-qubit bookkeeping either: ids marked in use == ids mapped
            ex = side.ex
            mapped = sorted(p for um in ex._qubit_unit_modules.values() for p in um if p is not None)
            if sorted(ex._used_physical_qubit_addresses) != mapped:
                ctx.fail(case, f"{where}: after {r_out}, physical qubits marked in use {sorted(ex._used_physical_qubit_addresses)} "
                               f"but mapped {mapped}")
                return ctx.case(case, nontrivial)
            if r_out in ("fault", "blocked"):
                break
    ctx.case(case, nontrivial and complete)
