"""C08 — NV transpilation preserves program behaviour, not only gates (differential execution + retarget monitor)."""
from __future__ import annotations

import copy

from vf.gen import vanilla as gv
from vf.gen.host import HostGen
from vf.harness import codec
from vf.harness import controller as hc
from vf.ref import quantum as rq

PID = "C08"
LEVEL = "exploration"
RULE = ("(a) vanilla subroutines the SDK really emits for random host programs (NV hardware config, no transpiler), each "
        "transpiled with NVSubroutineTranspiler and run on a second executor from the same state with the same "
        "measurement script; (b) directly generated vanilla subroutines with counted loops, conditionals on "
        "measurement outcomes and end labels around gates, 1-4 qubits, Q registers written by set, and (known-finding "
        "variant) by load from an array; both debug settings. Compared after every subroutine: all registers the "
        "program names, arrays, published values, unit module, measurement outcomes and the quantum state ordered by "
        "virtual id (up to global phase); plus a structural monitor: non-gate instructions keep identity and order, "
        "every branch lands on the first instruction of the expansion of its old target (a target one past the end "
        "lands on the appended no-op or the new end)."
        ' Further direct families: branches / loop heads / forward jumps that target a gate itself with several operand registers in use; bystander registers that point at the electron on one path only; operand registers carried over from an earlier subroutine. Monitor on the transpiled run: every controlled rotation has virtual qubit 0 as control and another qubit as target. '
        ' Loops whose back-edge keeps a Q register alive that is named only below a carbon-carbon gate (the scratch register for the electron may not be that one); loops that set a gate operand register again below the gate (known finding). Programs may use register C15 themselves; debug listings are judged in memory and executed as decoded from their bytes. '
        "Non-trivial = the program contains a gate that expands to more "
        "than one NV instruction and a taken or untaken branch across a gate; distinct = distinct program + script.")
ASSUMPTIONS = ["the vanilla and the NV run use the same executor class and backend; only the instruction stream differs",
               "known finding nv-transpile:two-qubit-gate-on-loaded-Q-register: cases whose two-qubit gate operand was written by `load` are reported as known when they misbehave",
               "known finding nv-transpile:gate-operand-register-set-again-below-the-gate-in-a-loop: only the family built for it (a gate operand register set again below the gate inside a loop) is reported under this key",
               "SDK-route programs whose *vanilla* run already faults (SDK relocation inside control flow on NV) are discarded and counted"]
SHARDS = {"quick": 4, "thorough": 16}
MIN_COUNTERS = {"subroutines_compared": 300, "branches_checked": 300}
MIN_NONTRIVIAL = {"quick": 100, "thorough": 2000}
WALL_BUDGET = {"quick": 200, "thorough": 2400}
KF = "nv-transpile:two-qubit-gate-on-loaded-Q-register"
KF_TEXT_ORDER = "nv-transpile:gate-operand-register-set-again-below-the-gate-in-a-loop"
KF_ELECTRON = "nv-transpile:carbon-carbon-gate-needs-allocated-electron"
KF_C15 = "nv-transpile:end-label-no-op-overwrites-register-C15"


def cases(ctx):
    rng = ctx.rng
    for _ in range(ctx.n(1200, 150000)):
        nq = rng.choice([1, 2, 3, 4, 5])
        use_load = rng.random() < 0.12
        prog, info = gv.gen_vanilla(rng, nq, rng.randrange(1, 5), use_load=use_load)
        yield {"kind": "direct", "nq": nq, "prog": prog, "debug": rng.random() < 0.3, "load": use_load,
               "loaded_two_qubit": info["loaded_two_qubit"], "script": [rng.randrange(2) for _ in range(40)]}
    for _ in range(ctx.n(300, 30000)):
        nq = rng.choice([2, 3, 4, 5])
        prog, info = gv.gen_vanilla_heads(rng, nq)
        yield {"kind": "direct", "nq": nq, "prog": prog, "debug": rng.random() < 0.3, "load": False, "heads": True,
               "loaded_two_qubit": False, "script": [rng.randrange(2) for _ in range(40)]}
    for _ in range(ctx.n(24, 2000)):
        # long straight-line subroutines with many carbon-carbon gates (each borrows a scratch register for the electron)
        nq = rng.choice([3, 4, 5])
        prog = []
        for v in range(nq):
            prog += [["set", [["Q", 0], v]], ["qalloc", [["Q", 0]]], ["init", [["Q", 0]]], ["set", [["Q", 0], v]],
                     [rng.choice(["h", "x", "k"]), [["Q", 0]]]]
        for _j in range(rng.choice([15, 16, 17, 20, 24, 30])):
            a, b = rng.sample(range(1, nq), 2) if nq >= 3 else (1, 2)
            prog += [["set", [["Q", 0], a]], ["set", [["Q", 1], b]], [rng.choice(["cnot", "cphase"]), [["Q", 0], ["Q", 1]]]]
        yield {"kind": "direct", "nq": nq, "prog": prog, "debug": False, "load": False, "loaded_two_qubit": False,
               "script": [rng.randrange(2) for _ in range(8)], "share": rng.random() < 0.5}
    for _ in range(ctx.n(40, 3000)):
        # a subroutine whose first instruction is a loop head (branch target 0); counters come from an earlier subroutine
        nq = rng.choice([2, 3])
        seed = []
        for v in range(nq):
            seed += [["set", [["Q", 0], v]], ["qalloc", [["Q", 0]]], ["init", [["Q", 0]]], ["set", [["Q", 0], v]], [rng.choice(["h", "k"]), [["Q", 0]]]]
        cnt = rng.choice([1, 2, 3])
        seed += [["set", [["R", 0], 0]], ["set", [["C", 0], cnt]], ["set", [["C", 10], 1]]]
        body = []
        for _j in range(rng.choice([1, 2, 3])):
            if rng.random() < 0.5 or nq < 2:
                body += [["set", [["Q", 0], rng.randrange(nq)]], [rng.choice(["h", "z", "s", "x"]), [["Q", 0]]]]
            else:
                a, b2 = rng.sample(range(nq), 2)
                body += [["set", [["Q", 0], a]], ["set", [["Q", 1], b2]], [rng.choice(["cnot", "cphase"]), [["Q", 0], ["Q", 1]]]]
        prog = body + [["add", [["R", 0], ["R", 0], ["C", 10]]], ["blt", [["R", 0], ["C", 0], 0]]]
        if rng.random() < 0.5:
            prog = [["beq", [["R", 0], ["C", 0], len(prog) + 2]]] + [[m, (o[:-1] + [o[-1] + 1]) if m == "blt" else o] for m, o in prog] + [["jmp", [0]]]
            prog[-2][1][2] = len(prog)   # blt falls out past the jmp
        yield {"kind": "direct", "nq": nq, "seed_prog": seed, "prog": prog, "debug": rng.random() < 0.3, "load": False,
               "loaded_two_qubit": False, "script": [rng.randrange(2) for _ in range(8)]}
    for _ in range(ctx.n(120, 8000)):
        # operand registers that still point at their qubits from an EARLIER subroutine of the application (registers persist):
        # used by single-qubit gates without being set again, around carbon-carbon gates that borrow a register for the electron
        nq = rng.choice([3, 4, 5])
        seed = []
        for v in range(nq):
            seed += [["set", [["Q", 0], v]], ["qalloc", [["Q", 0]]], ["init", [["Q", 0]]], ["set", [["Q", 0], v]], [rng.choice(["h", "k", "x"]), [["Q", 0]]]]
        carried = {}
        for r in rng.sample([2, 3, 4, 5], rng.choice([1, 2, 3])):
            carried[r] = rng.randrange(nq)
            seed.append(["set", [["Q", r], carried[r]]])
        prog = []
        if rng.random() < 0.5:
            for r in sorted(carried):    # each carried register is read before the first two-qubit gate ...
                prog.append([rng.choice(["h", "s", "x", "t"]), [["Q", r]]])
        # ... or only below it (and never written in this subroutine): it is named in the subroutine, so it is not free to borrow
        for _j in range(rng.choice([1, 2, 3])):
            a, b2 = rng.sample(range(nq), 2)
            prog += [["set", [["Q", 0], a]], ["set", [["Q", 1], b2]], [rng.choice(["cnot", "cphase"]), [["Q", 0], ["Q", 1]]]]
            r = rng.choice(sorted(carried))
            prog.append([rng.choice(["h", "z", "x", "k"]), [["Q", r]]] if rng.random() < 0.6 else ["rot_" + rng.choice("xyz"), [["Q", r], rng.randrange(32), 4]])
        yield {"kind": "direct", "nq": nq, "seed_prog": seed, "prog": prog, "debug": rng.random() < 0.3, "load": False, "carried": True,
               "loaded_two_qubit": False, "script": [rng.randrange(2) for _ in range(8)]}
    for _ in range(ctx.n(40, 3000)):
        # a Q register carried over from an earlier subroutine that this subroutine names ONLY as an array index / slice bound
        # (an explicit loop register the application goes on indexing with): it is named, so it is not free to borrow
        nq = rng.choice([3, 4])
        seed = []
        for v in range(nq):
            seed += [["set", [["Q", 0], v]], ["qalloc", [["Q", 0]]], ["init", [["Q", 0]]], [rng.choice(["h", "x"]), [["Q", 0]]]]
        r = rng.choice([2, 3, 4])
        idx = rng.randrange(1, 3)
        seed += [["set", [["R", 9], 3]], ["array", [["R", 9], 0]], ["set", [["Q", r], idx]]]
        for j in range(3):
            seed += [["set", [["R", 9], 10 * (j + 1)]], ["set", [["R", 8], j]], ["store", [["R", 9], [0, ["R", 8]]]]]
        a, b2 = rng.sample(range(1, nq), 2)
        prog = [["set", [["Q", 0], a]], ["set", [["Q", 1], b2]], [rng.choice(["cnot", "cphase"]), [["Q", 0], ["Q", 1]]]]
        prog += [["load", [["R", 0], [0, ["Q", r]]]], ["set", [["R", 1], 5]], ["add", [["R", 0], ["R", 0], ["R", 1]]], ["store", [["R", 0], [0, ["Q", r]]]]]
        if rng.random() < 0.5:
            prog += [["set", [["R", 2], 3]], ["wait_all", [[0, ["Q", r], ["R", 2]]]]]
        yield {"kind": "direct", "nq": nq, "seed_prog": seed, "prog": prog, "debug": rng.random() < 0.3, "load": False, "carried": True,
               "loaded_two_qubit": False, "script": [rng.randrange(2) for _ in range(8)], "index_register": True}
    for _ in range(ctx.n(60, 5000)):
        # a Q register that is named only BELOW a carbon-carbon gate but is live at it: the loop jumps back up, and the
        # register borrowed for the electron may not be that one
        nq = rng.choice([3, 4, 5])
        seed = []
        for v in range(nq):
            seed += [["set", [["Q", 0], v]], ["qalloc", [["Q", 0]]], ["init", [["Q", 0]]], ["set", [["Q", 0], v]], [rng.choice(["h", "k", "x"]), [["Q", 0]]]]
        seed += [["set", [["R", 0], 0]], ["set", [["C", 0], rng.choice([2, 3])]], ["set", [["C", 10], 1]]]
        a, b2 = rng.sample(range(1, nq), 2)
        ks = rng.sample([2, 3, 4], rng.choice([1, 2]))
        prog = [["set", [["Q", 0], a]], ["set", [["Q", 1], b2]], [rng.choice(["cnot", "cphase"]), [["Q", 0], ["Q", 1]]]]
        skip = len(prog) + 1 + len(ks)
        prog.append(["bez", [["R", 0], skip]])
        for k in ks:
            prog.append([rng.choice(["x", "h", "s", "k"]), [["Q", k]]])
        for k in ks:
            prog.append(["set", [["Q", k], rng.randrange(nq)]])
        prog += [["add", [["R", 0], ["R", 0], ["C", 10]]], ["blt", [["R", 0], ["C", 0], 0]]]
        yield {"kind": "direct", "nq": nq, "seed_prog": seed, "prog": prog, "debug": rng.random() < 0.3, "load": False, "backedge": True,
               "loaded_two_qubit": False, "script": [rng.randrange(2) for _ in range(8)]}
    for _ in range(ctx.n(60, 5000)):
        # two gates on the same register directly after one another, the second one a branch target (a loop head entered again
        # by the back-edge, or the landing point of a taken forward branch): whatever the transpiler does across the seam of the
        # two expansions, the path that jumps in runs the second gate alone
        nq = rng.choice([2, 3])
        seed = []
        for v in range(nq):
            seed += [["set", [["Q", 0], v]], ["qalloc", [["Q", 0]]], ["init", [["Q", 0]]], ["set", [["Q", 0], v]], [rng.choice(["h", "k", "x", "t"]), [["Q", 0]]]]
        seed += [["set", [["R", 0], 0]], ["set", [["C", 0], rng.choice([2, 3])]], ["set", [["C", 10], 1]]]
        a = rng.randrange(nq)
        b2 = rng.choice([x for x in range(nq) if x != a])

        def gate_on_q0():
            r_ = rng.random()
            if r_ < 0.6:
                return [rng.choice(["h", "h", "x", "k", "s", "z"]), [["Q", 0]]]
            if r_ < 0.8:
                return [rng.choice(["cnot", "cphase"]), [["Q", 1], ["Q", 0]]]
            return [rng.choice(["cnot", "cphase"]), [["Q", 0], ["Q", 1]]]
        if rng.random() < 0.6:
            # loop: the second gate is the loop head
            prog = [["set", [["Q", 0], a]], ["set", [["Q", 1], b2]], gate_on_q0(), gate_on_q0(), ["add", [["R", 0], ["R", 0], ["C", 10]]],
                    ["blt", [["R", 0], ["C", 0], 3]]]
        else:
            # forward branch over the first gate (taken or not, by the value of R1)
            prog = [["set", [["Q", 0], a]], ["set", [["Q", 1], b2]], ["set", [["R", 1], rng.choice([0, 1])]], ["bez", [["R", 1], 5]],
                    gate_on_q0(), gate_on_q0(), ["h", [["Q", 1]]]]
        yield {"kind": "direct", "nq": nq, "seed_prog": seed, "prog": prog, "debug": rng.random() < 0.3, "load": False, "seam": True,
               "loaded_two_qubit": False, "script": [rng.randrange(2) for _ in range(8)]}
    if ctx.shard == 0:
        # the same seam, enumerated: every ordered pair of these gates on one register, as loop head and as landing point
        G = [["h", [["Q", 0]]], ["x", [["Q", 0]]], ["k", [["Q", 0]]], ["s", [["Q", 0]]], ["cnot", [["Q", 1], ["Q", 0]]], ["cnot", [["Q", 0], ["Q", 1]]],
             ["cphase", [["Q", 1], ["Q", 0]]]]
        for a, b2 in ((0, 1), (1, 0), (1, 2)):
            nq = 3
            seed = []
            for v in range(nq):
                seed += [["set", [["Q", 0], v]], ["qalloc", [["Q", 0]]], ["init", [["Q", 0]]], ["set", [["Q", 0], v]], [["h", "k", "t"][v], [["Q", 0]]]]
            seed += [["set", [["R", 0], 0]], ["set", [["C", 0], 2]], ["set", [["C", 10], 1]]]
            for g1 in G:
                for g2 in G:
                    loop = [["set", [["Q", 0], a]], ["set", [["Q", 1], b2]], copy.deepcopy(g1), copy.deepcopy(g2), ["add", [["R", 0], ["R", 0], ["C", 10]]],
                            ["blt", [["R", 0], ["C", 0], 3]]]
                    fwd = [["set", [["Q", 0], a]], ["set", [["Q", 1], b2]], ["set", [["R", 1], 0]], ["bez", [["R", 1], 5]], copy.deepcopy(g1), copy.deepcopy(g2),
                           ["h", [["Q", 1]]]]
                    for prog in (loop, fwd):
                        yield {"kind": "direct", "nq": nq, "seed_prog": seed, "prog": prog, "debug": False, "load": False, "seam": True,
                               "loaded_two_qubit": False, "script": [0] * 8, "share": g1 == g2}
    for j_all in range(ctx.n(40, 2500)):
        # a program that names all sixteen Q registers and has a carbon-carbon gate inside a loop: nothing is left to borrow for the
        # electron - the transpiler may refuse, it may not quietly take a register that is read again after the back-edge
        nq = rng.choice([3, 4])
        seed = []
        for v in range(nq):
            seed += [["set", [["Q", 0], v]], ["qalloc", [["Q", 0]]], ["init", [["Q", 0]]], ["set", [["Q", 0], v]], [rng.choice(["h", "k", "x"]), [["Q", 0]]]]
        seed += [["set", [["R", 0], 0]], ["set", [["C", 0], 2]], ["set", [["C", 10], 1]]]
        for r in range(2, 16):
            seed.append(["set", [["Q", r], rng.randrange(nq)]])
        a, b2 = rng.sample(range(1, nq), 2)
        # ... or all but one (any one of Q2..Q15): then exactly one register is free and must be found
        spare = [None, 15, 2, 14][j_all] if j_all < 4 else rng.choice([None, None] + list(range(2, 16)))
        order = [r for r in range(2, 16) if r != spare]
        rng.shuffle(order)
        prog = [[rng.choice(["h", "x", "s"]), [["Q", r]]] for r in order[:len(order) - 1]]     # loop body starts by reading them
        prog += [["set", [["Q", 0], a]], ["set", [["Q", 1], b2]], [rng.choice(["cnot", "cphase"]), [["Q", 0], ["Q", 1]]]]
        prog += [[rng.choice(["h", "z"]), [["Q", r]]] for r in order[len(order) - 1:]]
        prog += [["add", [["R", 0], ["R", 0], ["C", 10]]], ["blt", [["R", 0], ["C", 0], 0]]]
        yield {"kind": "direct", "nq": nq, "seed_prog": seed, "prog": prog, "debug": False, "load": False, "may_refuse": spare is None,
               "loaded_two_qubit": False, "script": [rng.randrange(2) for _ in range(8)]}
    for _ in range(ctx.n(30, 2000)):
        # the operand register of a gate inside a loop is `set` again BELOW the gate: in the second iteration it points at
        # another qubit than the text above the gate says (known finding: values are tracked in text order)
        nq = rng.choice([3, 4])
        seed = []
        for v in range(nq):
            seed += [["set", [["Q", 0], v]], ["qalloc", [["Q", 0]]], ["init", [["Q", 0]]], ["set", [["Q", 0], v]], [rng.choice(["h", "k", "x"]), [["Q", 0]]]]
        seed += [["set", [["R", 0], 0]], ["set", [["C", 0], 2]], ["set", [["C", 10], 1]]]
        a, b2 = rng.sample(range(nq), 2)
        c = rng.choice([x for x in range(nq) if x not in (a, b2)])
        prog = [["set", [["Q", 0], a]], ["set", [["Q", 1], b2]], [rng.choice(["cnot", "cphase"]), [["Q", 0], ["Q", 1]]], ["set", [["Q", 1], c]],
                ["add", [["R", 0], ["R", 0], ["C", 10]]], ["blt", [["R", 0], ["C", 0], 2]]]
        yield {"kind": "direct", "nq": nq, "seed_prog": seed, "prog": prog, "debug": False, "load": False, "set_below": True,
               "loaded_two_qubit": False, "script": [rng.randrange(2) for _ in range(8)]}
        # the same root seen with a forward branch: the `set` that is last in the text above the gate is skipped on one path
        r0 = rng.choice([0, 1])
        prog = [["set", [["R", 0], r0]], ["set", [["Q", 1], b2]], ["set", [["Q", 0], a]], ["bez", [["R", 0], 5]], ["set", [["Q", 0], c]],
                [rng.choice(["cnot", "cphase"]), [["Q", 0], ["Q", 1]]], ["h", [["Q", 0]]]]
        yield {"kind": "direct", "nq": nq, "seed_prog": seed, "prog": prog, "debug": False, "load": False, "set_below": True,
               "loaded_two_qubit": False, "script": [rng.randrange(2) for _ in range(8)]}
    for _ in range(ctx.n(300, 30000)):
        g = HostGen(rng, max_depth=rng.choice([2, 3]), allow_regs=False)
        g.p_cond_regmeas = 0.0
        g.budget = rng.choice([1, 2, 3])
        prog = g.program(rng.randrange(2, 7), p_flush=rng.choice([0.0, 0.3, 0.6]))
        yield {"kind": "sdk", "prog": prog, "debug": rng.random() < 0.3, "script": [rng.randrange(2) for _ in range(40)]}


def named_registers(instrs):
    out = set()
    from netqasm.lang import operand as op
    for i in instrs:
        for o in i.operands:
            if isinstance(o, op.Register):
                out.add(str(o))
            elif isinstance(o, op.ArrayEntry) and isinstance(o.index, op.Register):
                out.add(str(o.index))
            elif isinstance(o, op.ArraySlice):
                for x in (o.start, o.stop):
                    if isinstance(x, op.Register):
                        out.add(str(x))
    return out


def is_gate(i):
    from netqasm.lang.instr import core
    return isinstance(i, (core.SingleQubitInstruction, core.RotationInstruction, core.TwoQubitInstruction)) and i.mnemonic != "init"


def branch_target(i):
    from netqasm.lang.instr import core
    if isinstance(i, (core.JmpInstruction, core.BranchUnaryInstruction, core.BranchBinaryInstruction)):
        return i.line.value
    return None


_DEBUG_RUNS = [0, 0]


def transpile_and_monitor(sub, debug):
    """Transpile `sub` in place. Returns (new_sub, error or None, stats)."""
    from netqasm.lang.instr.base import DebugInstruction
    from netqasm.sdk.transpile import NVSubroutineTranspiler
    old = list(sub.instructions)
    old_br = [(t, branch_target(i), type(i)) for t, i in enumerate(old) if branch_target(i) is not None]
    shared_objects = len({id(i) for i in old}) != len(old)
    _DEBUG_RUNS[1] += 1
    if _DEBUG_RUNS[1] % 2 == 0:
        bytes(sub)      # the vanilla subroutine had been encoded once (logged, sent to a vanilla node) before it is transpiled
    if _DEBUG_RUNS[1] % 5 == 3:
        # the transpiler object is created first, the program is put into the subroutine afterwards (a compiler pipeline that
        # wires its passes up before the builder has finished): what counts is the subroutine at the time of transpile()
        full = list(sub.instructions)
        sub.instructions = full[:1]
        tr_ = NVSubroutineTranspiler(sub, debug=debug)
        sub.instructions = full
        new_sub = tr_.transpile()
    else:
        new_sub = NVSubroutineTranspiler(sub, debug=debug).transpile()
    new = list(new_sub.instructions)      # in memory the debug comments occupy positions (and branch targets count them)
    if shared_objects:
        # one object listed at several positions: identity cannot anchor the structural monitor; the differential execution decides
        if debug:
            from netqasm.lang.parsing import deserialize
            new_sub = deserialize(bytes(new_sub), flavour=codec.flavour_obj("nv"))
        return new_sub, None, {"branches": 0, "expanded": len(new) > len(old)}
    pos = {id(x): k for k, x in enumerate(new)}
    # branch instructions may come back as re-targeted copies: the j-th branch of the source is the j-th branch of the result
    new_br = [k for k, x in enumerate(new) if branch_target(x) is not None]
    if len(new_br) != len(old_br) or any(type(new[k]) is not ty for k, (_, _, ty) in zip(new_br, old_br)):
        return new_sub, f"the source has branch instructions {[(t, ty.__name__) for t, _, ty in old_br]}, the result has {[(k, type(new[k]).__name__) for k in new_br]}", {}
    old_targets = {}
    for k, (t, tgt, _) in zip(new_br, old_br):
        pos[id(old[t])] = k
        old_targets[id(new[k])] = tgt
    # non-gate instructions keep identity and order
    last = -1
    missing = 0
    new_index = {}
    for t, i in enumerate(old):
        if is_gate(i):
            continue
        k = pos.get(id(i))
        if k is None:
            # not an alarm by itself (a correct transpiler may drop a redundant instruction): the differential
            # execution decides; the instruction just cannot serve as an anchor for the branch-target monitor
            missing += 1
            continue
        if k <= last:
            return new_sub, f"non-gate instruction {t} ({i}) was reordered", {}
        last = k
        new_index[t] = k
    # start of the expansion of a gate = position after its predecessor's expansion; under the generator's
    # discipline (and the SDK's) the predecessor of a gate is a non-gate instruction or another gate's end
    def start_of(t):
        if t == len(old):
            return None
        if t in new_index:
            return new_index[t]
        # walk back to the nearest non-gate anchor
        a = t - 1
        while a >= 0 and a not in new_index:
            a -= 1
        if a != t - 1 or missing:
            return "ambiguous"
        return new_index[a] + 1 if a >= 0 else 0
    nbr = 0
    for i in new:
        if id(i) in old_targets:
            nbr += 1
            t_old = old_targets[id(i)]
            got = branch_target(i)
            if t_old == len(old):
                ok = got == len(new) or (got == len(new) - 1 and new[-1] not in old and not is_gate(new[-1]))
                if not ok:
                    return new_sub, f"branch {i} targeted the end of the program ({t_old}) and now targets {got} of {len(new)}", {}
                continue
            want = start_of(t_old)
            if want == "ambiguous":
                continue
            # debug comments may precede the expansion
            k = want
            while k < len(new) and isinstance(new[k], DebugInstruction) and got != k:
                k += 1
            if got not in (want, k):
                return new_sub, f"branch {i} targeted old instruction {t_old} ({old[t_old]}) whose expansion starts at {want}, but now targets {got}", {}
    for i in new:
        from netqasm.lang.instr import vanilla
        if type(i).__module__ == vanilla.__name__:
            return new_sub, f"vanilla instruction {i} survives transpilation", {}
    expanded = sum(1 for t, i in enumerate(old) if is_gate(i)) and (len([x for x in new if not isinstance(x, DebugInstruction)]) > len(old))
    if debug:
        # the debug listing is executed the way a controller gets it: encoded and decoded with the NV flavour
        from netqasm.lang.parsing import deserialize
        # ... after the step every SDK subroutine goes through before it is sent: instantiate (here: nothing to fill in)
        committed = copy.deepcopy(new_sub)
        try:
            committed.instantiate(new_sub.app_id, {})
            raw = bytes(committed)
        except Exception as e:
            return new_sub, f"the debug listing cannot be instantiated and serialised the way the SDK commits a subroutine: {type(e).__name__}: {str(e)[:120]}", {}
        if raw != bytes(new_sub):
            return new_sub, "instantiating the debug listing (no template to fill in) changed its bytes", {}
        _DEBUG_RUNS[0] += 1
        if _DEBUG_RUNS[0] % 2:
            new_sub = deserialize(raw, flavour=codec.flavour_obj("nv"))
        # (every other debug listing is executed as the object the transpiler returned, comments and all: its branch targets
        # count the comments, and the executor steps over them)
    elif _DEBUG_RUNS[1] % 4 in (0, 1):
        # half of the plain results are executed the way a node gets them: encoded and decoded with the NV flavour
        from netqasm.lang.parsing import deserialize
        new_sub = deserialize(bytes(new_sub), flavour=codec.flavour_obj("nv"))
    return new_sub, None, {"branches": nbr, "expanded": bool(expanded)}


def electron_control(ctx, ex):
    """The NV two-qubit operation is an electron-controlled rotation of a carbon: in the run of the transpiled program every
    controlled rotation must have virtual qubit 0 as control and another qubit as target - otherwise the decomposition
    chosen does not reflect the qubits the registers held when it executed (even if a simulator ends in the same state)."""
    for ev in ex.trace:
        if ev[0].startswith("crot_"):
            ctx.count("controlled_rotations_observed")
            if ev[1] != 0 or ev[2] == 0:
                return (f"the transpiled program executed {ev[0]} with virtual qubit {ev[1]} as control and {ev[2]} as target: "
                        f"the decomposition does not reflect the qubits its registers held (the control must be the electron, id 0)")
    return None


class Side:
    def __init__(self, name, script, nq):
        self.ex = hc.MonitoredExecutor(name=name, node_id=0, script=rq.MeasScript(script), step_limit=20000)
        self.ex.init_new_application(app_id=0, max_qubits=nq)

    def run(self, sub):
        try:
            hc.drive(self.ex.execute_subroutine(sub), self.ex, None)
            return "done", None
        except hc.StepLimit:
            return "bound", None
        except hc.ControllerFault as cf:
            return "fault", str(cf)


def compare_sides(v: hc.MonitoredExecutor, n: hc.MonitoredExecutor, names, c15_named):
    rv, rn = v.registers_snapshot(0), n.registers_snapshot(0)
    for r in sorted(names | set(rv)):
        if r == "C15" and not c15_named:
            continue
        if r not in names and r not in rv:
            continue
        if r.startswith("Q") and rv.get(r) is None:
            # a Q register the program names somewhere but never wrote on the executed path: the transpiler may have borrowed it
            # for the electron before its first textual use; nothing on this path (or later) can read it without writing it first
            continue
        if rv.get(r) != rn.get(r) and r in names:
            return f"register {r}: vanilla run {rv.get(r)} vs transpiled run {rn.get(r)}"
    if v.arrays_snapshot(0) != n.arrays_snapshot(0):
        return f"arrays differ: vanilla {v.arrays_snapshot(0)} vs transpiled {n.arrays_snapshot(0)}"
    if v.ret_log != n.ret_log:
        return f"returned values differ: vanilla {v.ret_log[-3:]} vs transpiled {n.ret_log[-3:]}"
    if v.meas_log != n.meas_log:
        return f"measurement results differ: vanilla {v.meas_log[-4:]} vs transpiled {n.meas_log[-4:]}"
    av, an = v.allocated_virtual(0), n.allocated_virtual(0)
    if av != an:
        return f"allocated virtual qubits differ: vanilla {sorted(av)} vs transpiled {sorted(an)}"
    try:
        sv_, sn_ = v.state_by_virtual(0), n.state_by_virtual(0)
    except AssertionError as e:
        return f"stray qubits in the state vector: {e}"
    if not rq.eq_up_to_phase(sv_, sn_, 1e-8):
        return f"quantum state differs (fidelity {rq.fidelity(sv_, sn_):.6f})"
    return None


def run_case(ctx, case):
    if case["kind"] == "direct":
        return _direct(ctx, case)
    return _sdk(ctx, case)


def _judge(ctx, case, err, key):
    ctx.fail(case, err, key=key)


def _direct(ctx, case):
    hc.reset_globals()
    key = KF if case.get("loaded_two_qubit") else KF_TEXT_ORDER if case.get("set_below") else None
    sub_v = codec.mk_subroutine("vanilla", [0, 10], 0, case["prog"])
    sub_n = codec.mk_subroutine("vanilla", [0, 10], 0, case["prog"])
    if case.get("share"):
        # a program assembled from parts (prologue + block * 2): an instruction that occurs twice is ONE object listed twice
        import json as _json
        for sub_ in (sub_v, sub_n):
            first = {}
            for i_, ins_ in enumerate(sub_.instructions):
                k_ = _json.dumps(codec.describe_instr(ins_))
                if k_ in first:
                    sub_.instructions[i_] = sub_.instructions[first[k_]]
                    ctx.count("instruction_objects_listed_twice")
                else:
                    first[k_] = i_
    names = named_registers(sub_v.instructions)
    try:
        sub_n, merr, stats = transpile_and_monitor(sub_n, case["debug"])
    except Exception as e:
        if case.get("may_refuse") and isinstance(e, RuntimeError) and "free register" in str(e):
            ctx.count("all_registers_named_refused")      # no register left to borrow: refusing is the honest answer
            return ctx.case(case, False)
        _judge(ctx, case, f"transpiler raised {type(e).__name__}: {str(e)[:160]}", key)
        return ctx.case(case, False)
    if merr:
        _judge(ctx, case, merr, key)
        return ctx.case(case, True)
    ctx.count("branches_checked", stats["branches"])
    V = Side("v", case["script"], case["nq"])
    N = Side("n", case["script"], case["nq"])
    if case.get("seed_prog"):
        # an earlier (untranspiled, gate-free apart from preparation) subroutine of the same application leaves registers behind
        for side in (V, N):
            side.run(codec.mk_subroutine("vanilla", [0, 10], 0, case["seed_prog"]))
        N.ex.meas_log.clear(); V.ex.meas_log.clear()
    ov, _ = V.run(sub_v)
    if ov != "done":
        ctx.count("discarded_vanilla_" + ov)
        return ctx.case(case, False)
    on, en = N.run(sub_n)
    ctx.count("subroutines_compared")
    if on != "done":
        _judge(ctx, case, f"transpiled program ends with {on} {en or ''} while the vanilla program completes", key)
        return ctx.case(case, True)
    d = compare_sides(V.ex, N.ex, names, "C15" in names) or electron_control(ctx, N.ex)
    if d:
        if d.startswith("register C15:") and d.endswith("transpiled run 1337"):
            # known mechanism: a branch to the label at the very end makes the transpiler append `set C15 1337` as something to jump to
            key = KF_C15
        _judge(ctx, case, d, key)
    trace = [pc for (_, pc, _) in V.ex.pc_trace]
    jumped = any(b != a + 1 for a, b in zip(trace, trace[1:]))
    ctx.case(case, bool(stats["expanded"] and (jumped or stats["branches"])))


def _sdk(ctx, case):
    """Vanilla subroutines as the SDK emits them for NV hardware; each is transpiled and replayed on a second executor."""
    from vf.harness.hostsdk import SdkDriver
    from vf.harness.pipeline import Pipe
    from vf.ref import hostlang as hl
    prog, script = case["prog"], case["script"]
    pipe = Pipe(script=script, max_qubits=5, hardware="nv", transpile=False)
    drv = SdkDriver(pipe.conn)
    N = hc.MonitoredExecutor(name="n", node_id=0, script=rq.MeasScript(script), step_limit=50000)
    N.init_new_application(app_id=pipe.app_id, max_qubits=5)
    done = 0
    any_expanded = False
    nbr = 0
    try:
        for seg in hl.segments(prog):
            drv.top_block(seg)
            try:
                pipe.conn.flush()
            except (hc.ControllerFault, hc.StepLimit):
                ctx.count("discarded_vanilla_run_faults")
                return ctx.case(case, False)
            for sub in pipe.conn.subroutines[done:]:
                names = named_registers(sub.instructions)
                work = copy.deepcopy(sub)
                try:
                    new_sub, merr, stats = transpile_and_monitor(work, case["debug"])
                except Exception as e:
                    ctx.fail(case, f"transpiler raised {type(e).__name__}: {str(e)[:160]} on an SDK-emitted subroutine")
                    return ctx.case(case, True)
                if merr:
                    ctx.fail(case, "SDK-emitted subroutine: " + merr)
                    return ctx.case(case, True)
                any_expanded = any_expanded or stats["expanded"]
                nbr += stats["branches"]
                ctx.count("branches_checked", stats["branches"])
                try:
                    hc.drive(N.execute_subroutine(new_sub), N, None)
                except (hc.ControllerFault, hc.StepLimit) as e:
                    key = KF_ELECTRON if _is_carbon_carbon_without_electron(e, sub, new_sub) else None
                    ctx.fail(case, f"transpiled SDK-emitted subroutine fails ({e}) while the vanilla one completes", key=key)
                    return ctx.case(case, True)
                ctx.count("subroutines_compared")
                ctx.count("sdk_subroutines_compared")
            done = len(pipe.conn.subroutines)
            d = _compare_sdk(pipe.ex, N, pipe.app_id) or electron_control(ctx, N)
            if d:
                ctx.fail(case, "SDK-emitted program: " + d)
                return ctx.case(case, True)
    except Exception as e:
        # SDK build-time refusals are not the transpiler's matter
        ctx.count("discarded_sdk_build_errors")
        return ctx.case(case, False)
    ctx.case(case, bool(any_expanded and nbr))


def _is_carbon_carbon_without_electron(exc, old_sub, new_sub):
    """Known mechanism: the expansion of a carbon-carbon CNOT/CPHASE swaps through virtual qubit 0 (the electron);
    when the SDK has moved every qubit away from ID 0 that qubit is not allocated and the expansion faults. Only a
    NotAllocatedError for address 0 raised inside the expansion of a two-qubit gate whose operands are both != 0 counts."""
    import re
    from vf.harness.l2 import fault_line
    if not isinstance(exc, hc.ControllerFault) or type(exc.exc).__name__ != "NotAllocatedError":
        return False
    if not re.search(r"address 0 was not allocated", str(exc.exc)):
        return False
    line = fault_line(exc.exc)
    if line is None:
        return False
    new = list(new_sub.instructions)
    old = list(old_sub.instructions)
    # identity is lost by the deep copy: align by walking both lists (non-gate instructions are equal and in order)
    j = 0
    owner = {}
    for t, i in enumerate(old):
        if is_gate(i):
            continue
        def same(x, y):
            if type(x) is not type(y):
                return False
            if branch_target(x) is not None:
                return [o for o in x.operands[:-1]] == [o for o in y.operands[:-1]]
            return x == y
        while j < len(new) and not same(new[j], i):
            owner[j] = t - 1 if t > 0 else None   # belongs to the expansion of the gate before this anchor
            j += 1
        owner[j] = t
        j += 1
    while j < len(new):
        owner[j] = len(old) - 1     # tail: expansion of a gate that ends the subroutine
        j += 1
    t = owner.get(line)
    if t is None or not (0 <= t < len(old)) or old[t].mnemonic not in ("cnot", "cphase"):
        return False
    # the SDK sets both operand registers right before the gate
    vals = []
    for back in (1, 2):
        if t - back >= 0 and old[t - back].mnemonic == "set":
            vals.append(old[t - back].imm.value)
    return len(vals) == 2 and all(v != 0 for v in vals)


def _compare_sdk(v, n, app):
    rv, rn = v.registers_snapshot(app), n.registers_snapshot(app)
    for r in sorted(set(rv) | set(rn)):
        if r.startswith("Q") or r == "C15":
            continue  # Q registers: the transpiler may use a free one as scratch for the electron
        if rv.get(r) != rn.get(r):
            return f"register {r}: vanilla run {rv.get(r)} vs transpiled run {rn.get(r)}"
    if v.arrays_snapshot(app) != n.arrays_snapshot(app):
        return "arrays differ between the vanilla and the transpiled run"
    if v.meas_log != n.meas_log:
        return f"measurement results differ: vanilla {v.meas_log[-4:]} vs transpiled {n.meas_log[-4:]}"
    if [x[1:] for x in v.ret_log] != [x[1:] for x in n.ret_log]:
        return "returned values differ between the vanilla and the transpiled run"
    if v.allocated_virtual(app) != n.allocated_virtual(app):
        return f"allocated virtual qubits differ: {sorted(v.allocated_virtual(app))} vs {sorted(n.allocated_virtual(app))}"
    try:
        a, b = v.state_by_virtual(app), n.state_by_virtual(app)
    except AssertionError as e:
        return f"stray qubits in the state vector: {e}"
    if not rq.eq_up_to_phase(a, b, 1e-8):
        return f"quantum state differs (fidelity {rq.fidelity(a, b):.6f})"
    return None
