"""C03 — assembling text or IR into a subroutine preserves program meaning (L2).

Monitors on every generated source program:
  (a) alignment: the assembled instructions, minus inserted scratch `set`s, are the source instructions 1:1 in order;
  (b) every branch immediate is the index of the first emitted instruction of the statement that followed its label
      (len(assembled) for a trailing label);
  (c) no scratch register is named anywhere in the source (including inside @a[R] / @a[R:R]) nor used twice in
      one instruction;
  (d) differential execution: R-INTERP on the source vs the real Executor on the assembled subroutine, started
      from a state left by an earlier subroutine of the same application (registers persist).
"""
from __future__ import annotations

import copy

from vf.gen import source as gs
from vf.harness import codec, l2
from vf.ref import interp as ri
from vf.ref import isa

PID = "C03"
LEVEL = "exploration"
RULE = ("random source programs (5-40 statements) over the classical, array and allocation instructions: labels "
        "anywhere (consecutive, trailing, forward/backward, unused), literals in every read operand position incl. "
        "array indices and slice bounds, bracketed arguments, # DEFINE macros incl. keys that are prefixes of one "
        "another, comments and blank lines; both front ends (text parser, IR assemble_subroutine). Each program is "
        "assembled by the repo, checked structurally, then executed on the real Executor after a seeding subroutine "
        "that defines all 16 R registers, and compared with R-INTERP on the source."
        ' Text sources also use zero-padded literals, register indices and addresses; IR sources are built whole, grown in place with commands.append, or grown by re-assigning commands. '
        ' IR sources also share one operand / command object between equal occurrences. '
        "Non-trivial = the reference run "
        "executed >= 6 source instructions, the program contains >= 1 literal that needs a scratch register and >= 1 "
        "label; distinct = distinct program text / IR description.")
ASSUMPTIONS = [
    "R-INTERP is the trusted reference; literals evaluate to themselves, labels denote the next source instruction",
    "a program that names all 16 R registers and still needs a scratch register may be refused with an error (counted, not judged)",
    "domain restrictions of C04 apply to the executed part (discarded, not judged)",
]
SHARDS = {"quick": 4, "thorough": 16}
MIN_COUNTERS = {"programs_assembled": 500, "scratch_sets_checked": 500, "branch_targets_checked": 300,
                "executions_compared": 300}
MIN_NONTRIVIAL = {"quick": 150, "thorough": 2000}


def kinds_of(m):
    return isa.TABLE["vanilla"][m][1]


def _threaded_assembly(ctx, case):
    """One application thread per node is the normal threaded deployment: several threads assemble their own programs (literals in
    register positions, array indices and slice bounds) at the same time; each gets what it gets when it assembles alone."""
    import random
    import sys
    import threading
    from netqasm.lang.parsing.text import parse_text_subroutine

    def text_for(r):
        lines = ["# NETQASM 1.0", "# APPID 0", "array 8 @0"]
        for _ in range(r.randrange(4, 12)):
            a, b, c = r.randrange(1, 200), r.randrange(1, 200), r.randrange(0, 6)
            lines.append(r.choice([f"add R{r.randrange(4)} {a} {b}", f"store {a} @0[{c}]", f"sub R{r.randrange(4)} R{r.randrange(4)} {b}",
                                   f"wait_all @0[{c}:{c + 2}]" if False else f"load R{r.randrange(4)} @0[{c}]", f"beq {a} {b} END", f"addm R1 {a} {b} {c + 2}"]))
        lines.append("END:")
        lines.append("ret_reg R0")
        return "\n".join(lines) + "\n"
    n, rounds = case["threads"], case["rounds"]
    jobs = []
    for t in range(n):
        r = random.Random(case["seed"] * 17 + t)
        texts = [text_for(r) for _ in range(rounds)]
        jobs.append([(tx, [codec.describe_instr(i) for i in parse_text_subroutine(tx).instructions]) for tx in texts])
    errors = []
    barrier = threading.Barrier(n)

    def worker(t):
        barrier.wait()
        for j, (tx, alone) in enumerate(jobs[t]):
            try:
                got = [codec.describe_instr(i) for i in parse_text_subroutine(tx).instructions]
            except Exception as e:
                errors.append(f"thread {t} program {j}: {type(e).__name__}: {str(e)[:100]}")
                return
            if got != alone:
                k = next((i for i, (g, a) in enumerate(zip(got, alone)) if g != a), min(len(got), len(alone)))
                errors.append(f"thread {t} program {j}: instruction {k} is {got[k] if k < len(got) else None}, assembled alone it is {alone[k] if k < len(alone) else None}")
                return
    old = sys.getswitchinterval()
    sys.setswitchinterval(1e-6)
    try:
        ths = [threading.Thread(target=worker, args=(t,)) for t in range(n)]
        [t.start() for t in ths]
        [t.join(300) for t in ths]
    finally:
        sys.setswitchinterval(old)
    ctx.count("programs_assembled_by_concurrent_threads", n * rounds)
    if errors:
        ctx.fail(case, "programs assembled concurrently by different threads differ from what each thread gets alone: " + errors[0])
    ctx.case(case, True)


def cases(ctx):
    rng = ctx.rng
    if ctx.shard == 0:
        yield {"kind": "threaded-assembly", "threads": 4, "rounds": ctx.n(150, 6000), "seed": rng.randrange(2**31)}
    for _ in range(ctx.n(3000, 300000)):
        seed_vals = [rng.choice([0, 1, 2, 3, 5, -1, 7, 11]) for _ in range(16)]
        st = ri.AppState(3)
        for i, v in enumerate(seed_vals):
            st.regs[f"R{i}"] = v
        n = rng.choice([5, 8, 12, 20, 30, 40])
        if rng.random() < 0.12:
            # register pressure: 13..16 of the R registers are named by the program
            k = rng.choice([13, 14, 15, 16])
            pool = [["R", i] for i in rng.sample(range(16), k)]
            n = max(n, k + 6)
            prog = gs.gen_source(rng, st, n, pool=pool, pressure=True)
        elif rng.random() < 0.1:
            # many distinct registers across all four banks (C, Q, M registers named before the R registers)
            wide = [[b, i] for b in "CQM" for i in rng.sample(range(16), rng.choice([6, 10, 16]))]
            rng.shuffle(wide)
            rs = [["R", i] for i in rng.sample(range(16), rng.choice([2, 5, 9]))]
            pool = wide + rs
            n = max(n, min(len(pool), 36) + 6)
            prog = gs.gen_source(rng, st, n, pool=pool, pressure=True)
        else:
            prog = gs.gen_source(rng, st, n, npool=rng.choice([4, 6, 10, 14]))
        if rng.random() < 0.3:
            # the program repeats an instruction whose only literal sits INSIDE an array entry / slice (an IR built by hand lists
            # the same command object twice): both occurrences need their literal materialised
            cands = [ins for ins in prog if ins and ins[0] in ("store", "load", "undef", "lea", "wait_all", "wait_any", "wait_single", "ret_arr")
                     and not any(isinstance(o, list) and o and o[0] == "lit" for o in ins[1])
                     and any(isinstance(o, list) and "'lit'" in repr(o) for o in ins[1])]
            if cands:
                prog = prog + [copy.deepcopy(rng.choice(cands))]
        items, label_pos = gs.add_labels(rng, prog)
        front = "text" if rng.random() < 0.6 else "ir"
        case = {"kind": front, "seed_regs": seed_vals, "items": items}
        if front == "text":
            text, meta = gs.render_text(rng, items, kinds_of)
            case["text"] = text
        yield case


def named_registers(items):
    out = set()

    def visit(x):
        if isinstance(x, list):
            if len(x) == 2 and isinstance(x[0], str) and x[0] in ("R", "C", "Q", "M") and isinstance(x[1], int):
                out.add(f"{x[0]}{x[1]}")
            elif x and x[0] not in ("lit", "lab"):
                for y in x:
                    visit(y)
    for it in items:
        if "m" in it:
            for o in it["ops"]:
                visit(o)
    return out


def max_lits(items):
    """Largest number of literals one instruction needs in scratch registers."""
    best = 0
    for it in items:
        if "m" not in it:
            continue
        c = 0
        for x, k in zip(it["ops"], kinds_of(it["m"])):
            if k == "reg" and ri.is_lit(x):
                c += 1
            elif k in ("entry", "slice"):
                c += sum(1 for y in x[1:] if ri.is_lit(y))
        best = max(best, c)
    return best


def source_program(items):
    """(prog for R-INTERP with integer targets, label positions)"""
    pos = {}
    prog = []
    for it in items:
        if "l" in it:
            pos[it["l"]] = len(prog)
        else:
            prog.append([it["m"], copy.deepcopy(it["ops"])])
    for m, o in prog:
        if m in gs.BRANCH_TARGET:
            j = gs.BRANCH_TARGET[m]
            o[j] = pos[o[j][1]]
    return prog, pos


def align(items, asm):
    """Structural monitor. asm = list of [mnemonic, described operands]. Returns (error or None, info)."""
    named = named_registers(items)
    src = [it for it in items if "m" in it]
    first_of = []          # index in asm of the first emitted instruction of source instruction i
    main_of = []           # index in asm of the instruction itself
    scratch_all = set()
    n_sets = 0
    a = 0
    for i, it in enumerate(src):
        m, ops = it["m"], it["ops"]
        kinds = kinds_of(m)
        # literals that need materialisation, in operand order
        lits = []
        for x, k in zip(ops, kinds):
            if k == "reg" and ri.is_lit(x):
                lits.append(x[1])
            elif k == "entry" and ri.is_lit(x[1]):
                lits.append(x[1][1])
            elif k == "slice":
                for y in (x[1], x[2]):
                    if ri.is_lit(y):
                        lits.append(y[1])
        first_of.append(a)
        sets = asm[a:a + len(lits)]
        if len(sets) < len(lits) or a + len(lits) >= len(asm) + (0 if True else 1):
            if a + len(lits) >= len(asm):
                return f"source instruction {i} ({m}) has no counterpart: assembled program too short", None
        regs = []
        for s_ in sets:
            if s_[0] != "set":
                return f"source instruction {i} ({m} {ops}): expected {len(lits)} inserted set(s), found {s_}", None
            regs.append((tuple(s_[1][0]), s_[1][1]))
        main = asm[a + len(lits)]
        if main[0] != m:
            return f"source instruction {i} is {m} but assembled has {main[0]} at {a + len(lits)} (dropped, duplicated or reordered)", None
        # which scratch register stands for which literal: read them off the main instruction
        got_ops = main[1]
        used_scratch = []
        if len(got_ops) != len(ops):
            return f"source instruction {i} ({m}): operand count differs", None
        for x, k, g in zip(ops, kinds, got_ops):
            def chk(xv, gv):
                if ri.is_lit(xv):
                    used_scratch.append((tuple(gv), xv[1]))
                    return True
                if isinstance(xv, list) and xv and xv[0] == "lab":
                    return True  # checked under (b)
                return xv == gv
            ok = True
            if k == "entry":
                ok = x[0] == g[0] and chk(x[1], g[1])
            elif k == "slice":
                ok = x[0] == g[0] and chk(x[1], g[1]) and chk(x[2], g[2])
            else:
                ok = chk(x, g)
            if not ok:
                return f"source instruction {i} ({m} {ops}) assembled with operand {g} in place of {x}", None
        for (r, v) in used_scratch:
            name = f"{r[0]}{r[1]}"
            if name in named:
                return (f"scratch register {name} used for literal {v} in source instruction {i} ({m} {ops}) is named by "
                        f"the source program"), None
            scratch_all.add(name)
        if len({r for r, _ in used_scratch}) != len(used_scratch):
            return f"source instruction {i} ({m} {ops}): one scratch register used for two literals", None
        if sorted(used_scratch) != sorted(regs):
            return f"source instruction {i} ({m} {ops}): inserted sets {regs} do not load the literals {used_scratch}", None
        n_sets += len(lits)
        main_of.append(a + len(lits))
        a += len(lits) + 1
    if a != len(asm):
        return f"assembled program has {len(asm) - a} extra instruction(s) after the last source instruction", None
    first_of.append(len(asm))
    # (b) branch targets
    n_br = 0
    _, pos = source_program(items)
    for i, it in enumerate(src):
        m = it["m"]
        if m in gs.BRANCH_TARGET:
            j = gs.BRANCH_TARGET[m]
            lab = it["ops"][j][1]
            want = first_of[pos[lab]]
            got = asm[main_of[i]][1][j]
            n_br += 1
            if got != want:
                return (f"branch {m} to label {lab} (before source instruction {pos[lab]}) lands on assembled index {got}, "
                        f"expected {want}"), None
    return None, {"first_of": first_of, "main_of": main_of, "scratch": scratch_all, "sets": n_sets, "branches": n_br}


def run_case(ctx, case):
    from netqasm.lang.parsing.text import assemble_subroutine, parse_text_subroutine
    if case["kind"] == "threaded-assembly":
        return _threaded_assembly(ctx, case)
    items = case["items"]
    src = [it for it in items if "m" in it]
    has_lit = any(ri.is_lit(x) or (isinstance(x, list) and any(ri.is_lit(y) for y in x if isinstance(y, list)))
                  for it in src for x in it["ops"])
    has_label = any("l" in it for it in items)
    try:
        if case["kind"] == "text":
            sub = parse_text_subroutine(case["text"])
        else:
            h = sum(len(str(it)) for it in items)     # deterministic per case (replays rebuild the same way)
            build = ("whole", "append", "assign")[h % 3]
            ctx.count("ir_built_" + build)
            share = (h // 7) % 3 == 0
            if share:
                ctx.count("ir_with_shared_operand_objects")
            proto = gs.render_ir(items, kinds_of, build=build, split=(h // 3) % (len(items) + 1), share=share)
            if (h // 11) % 4 == 0:
                # the IR is instantiated (template arguments filled in - there are none here) before it is assembled
                ctx.count("ir_instantiated_before_assembling")
                proto.instantiate(app_id=0, arguments={})
            kept = list(proto.commands)          # the caller's own command objects
            sub = assemble_subroutine(proto)
            if (h // 13) % 2 == 0:
                # (every other time: what the caller's ProtoSubroutine lists AFTER it was assembled - assembling is not supposed
                # to have rewritten the caller's program)
                kept = list(proto.commands)
                ctx.count("ir_proto_reused_after_it_was_assembled")
            free_r = [i for i in range(16) if f"R{i}" not in named_registers(items)]
            if has_lit and len(free_r) >= 5 and (h // 17) % 2 == 0:
                # the caller goes on writing the SAME proto after it was assembled once (appends to the list it handed over): the
                # lowest register the first program left unnamed now holds a value of the program, and a literal of the longer
                # program is added behind it
                tail = [{"m": "set", "ops": [["R", free_r[0]], 100]}, {"m": "add", "ops": [["R", free_r[0]], ["R", free_r[0]], ["lit", 5]]}]
                proto.commands.extend(gs.render_ir(tail, kinds_of).commands)
                ctx.count("ir_proto_extended_in_place_and_assembled_again")
                sub3 = assemble_subroutine(proto)
                err3, _ = align(items + tail, [codec.describe_instr(i) for i in sub3.instructions])
                if err3:
                    ctx.fail(case, f"[ir] the proto was assembled, extended in place by two statements and assembled again: {err3}")
                    return ctx.case(case, has_lit and has_label)
            if has_label and (h // 5) % 2 == 0:
                # the caller reuses its command objects in a SECOND, longer program (two statements in front): assembling the first
                # one must have left them as they were - every label of the second program resolves in the second program
                from netqasm.lang.ir import ProtoSubroutine
                extra = [{"m": "set", "ops": [["C", 14], 7]}, {"m": "set", "ops": [["C", 13], 8]}]
                front = list(gs.render_ir(extra, kinds_of).commands)
                ctx.count("ir_commands_reused_in_a_second_program")
                sub2 = assemble_subroutine(ProtoSubroutine(commands=front + kept, app_id=0))
                err2, _ = align(extra + items, [codec.describe_instr(i) for i in sub2.instructions])
                if err2:
                    ctx.fail(case, f"[ir] the program's command objects reused in a second program (two statements in front), assembled "
                                   f"after the first: {err2}")
                    return ctx.case(case, has_lit and has_label)
    except RuntimeError as e:
        nR = len({r for r in named_registers(items) if r[0] == "R"})
        if "no registers left" in str(e) and nR + max_lits(items) > 16:
            ctx.count("refused_no_scratch_register")
            return ctx.case(case, False)
        ctx.fail(case, f"assembler raised {type(e).__name__}: {e}")
        return ctx.case(case, False)
    except Exception as e:
        ctx.fail(case, f"assembler raised {type(e).__name__}: {str(e)[:200]}")
        return ctx.case(case, False)
    ctx.count("programs_assembled")
    asm = [codec.describe_instr(i) for i in sub.instructions]
    err, info = align(items, asm)
    if err:
        ctx.fail(case, f"[{case['kind']}] {err}")
        return ctx.case(case, has_lit and has_label)
    ctx.count("scratch_sets_checked", info["sets"])
    ctx.count("branch_targets_checked", info["branches"])
    # (d) differential execution from a seeded application state
    prog, _ = source_program(items)
    ref = ri.AppState(3)
    seed = [["set", [["R", i], v]] for i, v in enumerate(case["seed_regs"])]
    ri.run_program(ref, seed)
    r_out, r_info = ri.run_program(ref, prog, step_bound=500)
    if r_out in ("ood", "bound"):
        ctx.count("discarded_" + r_out)
        return ctx.case(case, False)
    side = l2.ExecSide(name="node", step_limit=3000)
    side.init_app(0, 3)
    side.run(0, seed)
    sub.app_id = 0
    e_out, e_info = side.run_subroutine(sub)
    ctx.count("executions_compared")
    nontrivial = has_lit and has_label and len(r_info["trace"]) >= 6
    if e_out != r_out:
        ctx.fail(case, f"[{case['kind']}] assembled program ends with {e_out} {e_info.get('exc', '')} but the source program "
                       f"{r_out} {r_info.get('what', '')} at source line {r_info.get('line')}")
        return ctx.case(case, nontrivial)
    if r_out in ("fault", "blocked"):
        # the faulting assembled instruction must belong to the faulting source statement
        main_of = info["main_of"]
        if r_out == "fault":
            want = main_of[r_info["line"]]
            if e_info["line"] != want:
                ctx.fail(case, f"[{case['kind']}] fault at assembled line {e_info['line']}, but source statement "
                               f"{r_info['line']} was assembled at line {want}")
                return ctx.case(case, nontrivial)
    got = side.app_view(0)
    want = l2.ref_view(ref)
    for r in info["scratch"]:
        got["regs"].pop(r, None)
        want["regs"].pop(r, None)
    d = l2.diff_views(got, want)
    if d:
        ctx.fail(case, f"[{case['kind']}] after running, {d}")
    ctx.case(case, nontrivial)
