"""C06 — pre-compiled templated subroutines equal direct compilation (L3, twin runs against R-HOST).

The same host program (rotation numerators given as Templates) is run (A) with every flush segment either
pre-compiled (compile -> instantiate(values) -> commit_subroutine) or flushed directly with the concrete values,
in every mix, and (B) entirely direct; both are compared with direct evaluation (R-HOST) after every
segment boundary (operations applied, arrays, registers, quantum state, host handles) and AFTER CLOSE; the
decoded subroutines are monitored for re-declaration of an array whose results were already returned.
"""
from __future__ import annotations

import itertools

from vf.gen.host import HostGen
from vf.harness import controller as hc
from vf.harness import hostdiff

PID = "C06"
LEVEL = "exploration"
RULE = ("random host programs whose rotation numerators are Templates (1-3 names, repeated, inside loops/ifs), template "
        "values random in 0..255 (and ALL 256 values for a small program per axis), 1-4 flush segments with EVERY "
        "assignment pre-compiled / direct / pre-compiled-but-committed-after-the-next-segment's-operations-were-queued "
        "per segment (the all-direct assignment is twin B), vanilla pipeline and NV "
        "pipeline (NVSubroutineTranspiler + NV-flavoured controller)."
        ' An identical-rounds family compiles the same templated body 2-4 times on one connection with different template values per round (pre / direct / pre-late per round). '
        " Segment mode +cb: the segment is sent with a completion callback in which the host queues the operations of the next segment, on the flush route and on the compile/commit route. "
        "Non-trivial = at least one segment was "
        "pre-compiled and contained a templated rotation that was executed; distinct = distinct (program, values, modes, hardware).")
ASSUMPTIONS = ["R-HOST gives the expected effect of the program with the concrete template values (transitively: precompiled == direct)",
               "in NV runs the applied-operation trace is not compared (different instruction set); arrays, registers, quantum state and host handles are"]
SHARDS = {"quick": 4, "thorough": 16}
MIN_COUNTERS = {"precompiled_segments": 100, "after_close_checks": 50}
MIN_NONTRIVIAL = {"quick": 50, "thorough": 1000}
WALL_BUDGET = {"quick": 200, "thorough": 2400}


def cases(ctx):
    rng = ctx.rng
    # all 256 values of one template on a small program
    k = 0
    for axis in "xyz":
        for v in range(256):
            k += 1
            if ctx.mine(k) and (not ctx.quick or v % 4 == 0 or v in (255, 254)):
                prog = [{"op": "qalloc", "q": "q1"}, {"op": "rot", "axis": axis, "q": "q1", "n": {"tmpl": "t0"}, "d": 4},
                        {"op": "meas", "q": "q1", "to": {"kind": "new", "name": "m1"}, "inplace": v % 2 == 0}]
                yield {"kind": "twin", "prog": prog, "values": {"t0": v}, "modes": ["pre"], "hardware": "generic", "script": [v % 2]}
    # ("same-object": the compiled subroutine itself is filled in again for every round; "...-refused-first": a first attempt to
    # fill in lacks a value and is refused, the complete one follows; "hw-template": the NV compiler on the hardware setting)
    for route in ("copies", "proto", "same-object", "same-object-refused-first", "proto-refused-first", "hw-template", "proto-same-object",
                  "proto-queued-between", "hw-template-d0", "hw-template-d1", "hw-template-d2", "hw-template-d3"):
        for host_values in (False, True):
            for _ in range(2 if ctx.quick else 20):
                k += 1
                if ctx.mine(k):
                    yield {"kind": "template-routes", "route": route, "host_values": host_values, "hardware": "generic",
                           "values": [[rng.randrange(1, 32), rng.randrange(1, 16)] for _ in range(rng.choice([2, 3, 4]))]}
    # a pre-compiled round is committed while the next round is half queued; the next round measures into registers before and
    # after that commit
    for first_to in ("new", "reg"):
        for v in (3, 17):
            k += 1
            if ctx.mine(k):
                to0 = {"kind": "new", "name": "m0"} if first_to == "new" else {"kind": "reg", "name": "mr0"}
                prog = [{"op": "qalloc", "q": "q0"}, {"op": "rot", "axis": "x", "q": "q0", "n": {"tmpl": "t0"}, "d": 4},
                        {"op": "meas", "q": "q0", "to": to0, "inplace": False}, {"op": "flush"},
                        {"op": "qalloc", "q": "q1"}, {"op": "gate", "g": "x", "q": "q1"}, {"op": "meas", "q": "q1", "to": {"kind": "reg", "name": "mr1"}, "inplace": False},
                        {"op": "qalloc", "q": "q2"}, {"op": "gate", "g": "h", "q": "q2"}, {"op": "meas", "q": "q2", "to": {"kind": "reg", "name": "mr2"}, "inplace": False}]
                yield {"kind": "twin", "prog": prog, "values": {"t0": v}, "modes": ["pre-late", "direct"], "hardware": "generic", "script": [0, 1, 0],
                       "family": "commit-between-register-measurements"}
    for _ in range(ctx.n(150, 15000)):
        yield rounds_case(rng, "nv" if rng.random() < 0.25 else "generic")
    for _ in range(ctx.n(140, 20000)):
        g = HostGen(rng, max_depth=rng.choice([2, 3]), allow_regs=False)
        # (template names are the application's choice: also names the SDK itself uses for the branch labels of loops and ifs)
        g.templates = rng.choice([["t0"], ["t0", "t1"], ["t0", "t1", "angle"], ["LOOP", "IF_EXIT", "LOOP_EXIT"], ["IF_EXIT1", "LOOP1", "t0"],
                                  ["WHILE", "WHILE_EXIT", "LOOP_EXIT1"]])
        g.p_cond_regmeas = 0.0
        hw = "nv" if rng.random() < 0.3 else "generic"
        if hw == "nv":
            # one live qubit: on NV the SDK relocates a qubit that occupies ID 0 when another one is measured, and a
            # relocation emitted inside a loop / conditional body is not staged correctly (outside this property and
            # outside C09's straight-line histories; see DESIGN.md) - with one qubit there is never a relocation
            g.budget = 1
        prog = g.program(rng.randrange(2, 7), p_flush=rng.choice([0.2, 0.4, 0.7]))
        nseg = sum(1 for s in prog if s["op"] == "flush") + 1
        if nseg > 4:
            continue
        values = {t: rng.choice([0, 1, 8, 16, 31, 255, rng.randrange(256)]) for t in g.templates}
        script = [rng.randrange(2) for _ in range(24)]
        alts = ["pre", "direct", "pre-late"] if nseg <= 3 else ["pre", "direct"]
        for modes in itertools.product(alts, repeat=nseg):
            yield {"kind": "twin", "prog": prog, "values": values, "modes": list(modes), "hardware": hw, "script": script}
        if nseg >= 2:
            # the host queues each next round from the completion callback of the previous one: both routes
            for base in ("pre", "direct"):
                yield {"kind": "twin", "prog": prog, "values": values, "modes": [base + "+cb"] * nseg, "hardware": hw, "script": script}
            yield {"kind": "twin", "prog": prog, "values": values, "modes": [rng.choice(["pre+cb", "direct+cb", "pre", "direct"]) for _ in range(nseg)],
                   "hardware": hw, "script": script}


def rounds_case(rng, hw="generic"):
    """The same templated body (the source text of every round is identical) compiled again and again on one connection, each
    round instantiated with other values - the measure-and-feed-forward loop of a host program."""
    nrounds = rng.choice([2, 3, 4])
    nrot = rng.choice([2, 4, 6, 9])
    body_spec = [(rng.choice("xyz"), rng.choice(["t0", "t1", "angle"]), rng.choice([1, 2, 3, 4])) for _ in range(nrot)]
    extra = [rng.choice(["h", "x", "z", "s"]) for _ in range(rng.choice([0, 2, 5]))]
    style = rng.choice(["reg", "array"])
    dtmpl = rng.choice([None, None, None, "same", "other"])
    prog, values = [], []
    for r_ in range(nrounds):
        q = f"q{r_}"
        prog.append({"op": "qalloc", "q": q})
        for j_, (axis, t, d) in enumerate(body_spec):
            # now and then the denominator is a template too - the same name as the numerator, or another one
            dd = {"tmpl": t if dtmpl == "same" else "t1"} if (dtmpl and j_ == 0) else d
            prog.append({"op": "rot", "axis": axis, "q": q, "n": {"tmpl": t}, "d": dd})
        for g in extra:
            prog.append({"op": "gate", "g": g, "q": q})
        to = {"kind": "reg", "name": f"mr{r_}"} if style == "reg" else {"kind": "new", "name": f"m{r_}"}
        prog.append({"op": "meas", "q": q, "to": to, "inplace": False})
        if r_ < nrounds - 1:
            prog.append({"op": "flush"})
        values.append({t: rng.choice([0, 1, 8, 16, 31, 255, rng.randrange(256)]) for t in ("t0", "t1", "angle")})
    modes = [rng.choice(["pre", "pre", "direct", "pre-late", "pre+cb", "direct+cb"]) for _ in range(nrounds)]
    return {"kind": "twin", "prog": prog, "values": values, "modes": modes, "hardware": hw, "script": [rng.randrange(2) for _ in range(8)],
            "family": "identical-rounds"}


def _has_template(stmts):
    for s in stmts:
        if s["op"] == "rot" and isinstance(s["n"], dict):
            return True
        if "body" in s and _has_template(s["body"]):
            return True
    return False


def _template_routes(ctx, case):
    """One templated block compiled once and sent several times with other values: through copies of the compiled subroutine
    (copy.copy(template).instantiate(..)), and through the older route that fills the values in at the IR level
    (subrt_pop_pending_subroutine -> ProtoSubroutine.instantiate -> commit_protosubroutine). Values are plain ints or int
    subclasses that carry their value in __int__ (what a host holds after reading a measurement outcome)."""
    import copy as _copy
    from netqasm.lang.operand import Template
    from netqasm.sdk.qubit import Qubit
    from vf.harness.pipeline import Pipe
    route, values, nv = case["route"], case["values"], case["hardware"] == "nv"
    hw_t = route.startswith("hw-template")
    # ("hw-template-dK": the templated numerator with denominator K != 4 on the hardware setting - a value that is filled in later
    # cannot be rescaled to units of pi/16 at compile time: refused, or else the rotation applied is the angle n * pi / 2^K)
    hw_d = int(route[-1]) if route.startswith("hw-template-d") else 4
    pipe = Pipe(script=[0] * 16, hardware="nv" if hw_t else case["hardware"], max_qubits=3)
    nv = nv or hw_t
    wrap = (lambda v: hostdiff._HostValue(v)) if case.get("host_values") else (lambda v: v)
    ctx.count("template_route_cases")
    from netqasm.runtime.settings import set_is_using_hardware
    try:
        set_is_using_hardware(hw_t)         # (after the harness has built its executor side, which resets the switch)
        with pipe.conn as conn:
            def block():
                q = Qubit(conn)
                q.rot_X(n=Template("a"), d=hw_d)
                q.rot_Z(n=Template("b"), d=4 if hw_t else 3)
                q.measure()
            if route in ("same-object", "same-object-refused-first") or hw_t:
                block()
                try:
                    tmpl = conn.compile()
                except ValueError as e:
                    if hw_d == 4 or "angle_denom 4" not in str(e):
                        raise
                    ctx.count("hardware_templates_with_other_denominators_refused")
                    conn.builder._reset() if hasattr(conn.builder, "_reset") else None
                    for q_ in list(conn.active_qubits):
                        q_.active = False
                    return ctx.case(case, True)
                kept_vals = {}
                for a_, b_ in values:
                    if route == "same-object" and case.get("host_values"):
                        # the application keeps ONE dict of values and updates it in place for every round
                        kept_vals["a"], kept_vals["b"] = a_, b_
                        tmpl.instantiate(conn.app_id, kept_vals)
                        conn.commit_subroutine(tmpl)
                        ctx.count("rounds_filled_in_from_one_dict_updated_in_place")
                        continue
                    if route == "same-object-refused-first":
                        try:
                            tmpl.instantiate(conn.app_id, {"a": wrap(a_ ^ 1)})
                            ctx.fail(case, "instantiate() without a value for template 'b' was accepted")
                        except KeyError:
                            ctx.count("incomplete_instantiations_refused")
                    tmpl.instantiate(conn.app_id, {"a": wrap(a_), "b": wrap(b_)})
                    conn.commit_subroutine(tmpl)
            elif route == "copies":
                block()
                tmpl = conn.compile()
                for a_, b_ in values:
                    s_ = _copy.copy(tmpl)
                    s_.instantiate(conn.app_id, {"a": wrap(a_), "b": wrap(b_)})
                    conn.commit_subroutine(s_)
            elif route == "proto-same-object":
                # one protosubroutine taken once and filled in again for every round
                block()
                proto = conn.builder.subrt_pop_pending_subroutine()
                for a_, b_ in values:
                    proto.instantiate(conn.app_id, {"a": wrap(a_), "b": wrap(b_)})
                    conn.commit_protosubroutine(proto)
            elif route == "proto-queued-between":
                # the protosubroutine is taken, further operations are queued while the host waits for the values, then it is
                # filled in and committed; the operations queued in between go out with the next flush, complete
                late = []
                for a_, b_ in values:
                    block()
                    proto = conn.builder.subrt_pop_pending_subroutine()
                    q2 = Qubit(conn)
                    late.append(q2.measure())
                    late.append(Qubit(conn).measure(store_array=False))
                    proto.instantiate(conn.app_id, {"a": wrap(a_), "b": wrap(b_)})
                    conn.commit_protosubroutine(proto)
                    conn.flush()
                    ctx.count("operations_queued_between_take_and_commit", 2)
                    if [int(h) for h in late[-2:]] != [0, 0]:
                        ctx.fail(case, f"template route {route}: outcomes of measurements queued between taking and committing a protosubroutine read {[int(h) for h in late[-2:]]}")
            else:
                for a_, b_ in values:
                    block()
                    proto = conn.builder.subrt_pop_pending_subroutine()
                    if route == "proto-refused-first":
                        try:
                            proto.instantiate(conn.app_id, {"a": wrap(a_ ^ 1)})
                            ctx.fail(case, "ProtoSubroutine.instantiate() without a value for template 'b' was accepted")
                        except KeyError:
                            ctx.count("incomplete_instantiations_refused")
                    proto.instantiate(conn.app_id, {"a": wrap(a_), "b": wrap(b_)})
                    conn.commit_protosubroutine(proto)
    except (hc.ControllerFault, hc.StepLimit) as e:
        ctx.fail(case, f"template route {route}: controller run failed: {e}")
        return ctx.case(case, True)
    except Exception as e:
        ctx.fail(case, f"template route {route}: the SDK could not compile / fill in / commit the templated block: {type(e).__name__}: {str(e)[:160]}")
        return ctx.case(case, True)
    finally:
        set_is_using_hardware(False)
    got = [(ev[0], ev[2]) for ev in pipe.ex.trace if ev[0] in ("rot_x", "rot_z")]
    want = [x for a_, b_ in values for x in (("rot_x", a_), ("rot_z", b_))]
    if hw_d != 4:
        # accepted: judged by the angle (in units of pi / 16, modulo a full turn)
        ctx.count("hardware_templates_with_other_denominators_accepted")
        got = [(ev[0], (ev[2] * 2 ** (4 - ev[3])) % 32 if ev[3] <= 4 else None) for ev in pipe.ex.trace if ev[0] in ("rot_x", "rot_z")]
        want = [x for a_, b_ in values for x in (("rot_x", (a_ * 2 ** (4 - hw_d)) % 32), ("rot_z", b_ % 32))]
    if nv:
        got = [g for g in got if g in want] if len(got) != len(want) else got
    if got != want:
        ctx.fail(case, f"template route '{route}' ({'host-value objects' if case.get('host_values') else 'ints'}): the controller applied rotations "
                       f"{got[:8]} where the values filled in were {want[:8]}")
    ctx.case(case, True)


def run_case(ctx, case):
    if case.get("kind") == "template-routes":
        return _template_routes(ctx, case)
    prog = case["prog"]

    def fail(what, key):
        # host-handle staleness is C05's known finding; C06 judges the two compilation routes
        if key in (hostdiff.KF_CACHE, hostdiff.KF_RETREG):
            return
        ctx.fail(case, what, key=key)

    def after_close(pipe, drv, ref, snap):
        ctx.count("after_close_checks")
        for name, arr in drv.arrays.items():
            if name in snap["arrays"]:
                try:
                    host = arr[0:len(arr)]
                except Exception as e:
                    host = f"{type(e).__name__}"
                if (list(host) if isinstance(host, list) else host) != snap["arrays"][name]:
                    ctx.fail(case, f"after close: host reads array {name} = {host}, the returned results were {snap['arrays'][name]}")
                    return
        # monitor: no `array` instruction for an address whose array was already returned
        returned = set()
        for i, sub in enumerate(pipe.conn.subroutines):
            declared = [ins.address.address for ins in sub.instructions if ins.mnemonic == "array"]
            for a in declared:
                if a in returned:
                    ctx.fail(case, f"subroutine {i} re-declares array @{a}, whose results were already returned by an earlier subroutine")
                    return
            returned.update(ins.address.address for ins in sub.instructions if ins.mnemonic == "ret_arr")

    nv = case["hardware"] == "nv"
    try:
        res = hostdiff.run_differential(prog, case["script"], fail, ctx.count, templates=case["values"],
                                        segment_modes=case["modes"], after_close=after_close, compare_trace=not nv,
                                        pipe_kw={"hardware": case["hardware"]})
    except hostdiff.Discard as d:
        ctx.count("discarded_" + str(d).split(":")[0].replace(" ", "_"))
        return ctx.case(case, False)
    from vf.ref import hostlang as hl
    segs = hl.segments(prog)
    nontrivial = any(m.replace("+cb", "") != "direct" and _has_template(seg) for m, seg in zip(case["modes"], segs))
    ctx.case(case, nontrivial)
