"""C17 — printed assembly parses back to the same instruction (L1).

Oracle: parse_text_subroutine(str(instr), flavour=f).instructions == [instr] (also compared through the
independent description of operands), and text -> binary -> text is stable for whole subroutines.
"""
from __future__ import annotations

from vf.harness import codec
from vf.ref import isa

PID = "C17"
LEVEL = "exploration"
RULE = ("per flavour x instruction class x operand field position: a sweep over all values of that field (64 registers, "
        "256 immediates, 90 boundary / walking-one 32-bit values incl. negatives) with the other fields random; "
        "plus random whole subroutines (text -> parse -> bytes -> deserialize -> text must be a fixed point). "
        ' After every parse the parsed instruction is edited in place and the same text parsed again; user-defined Flavour subclasses instantiated for different devices. '
        ' Template operands and boolean immediates in every slot that accepts them. '
        "Non-trivial = instruction has at least one operand; distinct = distinct case description.")
ASSUMPTIONS = ["operands are in their encodable ranges", "the printed form is str(instruction) (what logs and users see)"]
SHARDS = {"quick": 1, "thorough": 16}
MIN_COUNTERS = {"print_parse_checks": 1000}
PRE = "# NETQASM 1.0\n# APPID 0\n"


_EDITS = [0]


def cases(ctx):
    rng = ctx.rng
    k = 0
    reps = 1 if ctx.quick else 8
    for flav in ("vanilla", "nv", "reids"):
        for cls in codec.flavour_classes(flav):
            ent = isa.TABLE[flav].get(cls.mnemonic)
            if ent is None:
                ctx.count("unreferenced_classes")
                continue
            kinds = ent[1]
            for pos in codec.leaf_positions(kinds) or [None]:
                for _ in range(reps):
                    k += 1
                    if ctx.mine(k):
                        yield {"kind": "sweep", "flavour": flav, "mnemonic": cls.mnemonic,
                               "pos": list(pos) if pos else None, "base": codec.rand_values(rng, kinds)}
    # operands that are not plain integers but are accepted by the instruction classes: template operands of rotations, and
    # booleans as immediates (True is the integer 1)
    for flav in ("vanilla", "nv"):
        for m in sorted(x for x in isa.TABLE[flav] if x.startswith("rot_")):
            for slot in (1, 2):
                for special in ("template", "true", "false"):
                    k += 1
                    if ctx.mine(k):
                        yield {"kind": "special", "flavour": flav, "mnemonic": m, "slot": slot, "special": special,
                               "base": codec.rand_values(rng, isa.TABLE[flav][m][1]),
                               "name": ["delta", "t0", "angle_1", "n", "0", "1st_angle", "alice.theta", "angle-num", "R1", "LOOP"][k % 10],
                               "with_lineno": k % 3 == 0}
    for m, slot in (("set", 1), ("jmp", 0), ("beq", 2), ("bez", 1), ("rot_x", 1), ("rot_z", 2)):
        for special in ("true", "false", "carrier"):
            k += 1
            if ctx.mine(k):
                yield {"kind": "special", "flavour": "vanilla", "mnemonic": m, "slot": slot, "special": special,
                       "base": codec.rand_values(rng, isa.TABLE["vanilla"][m][1]), "name": "x"}
    # booleans as register indices and array addresses (in range, accepted by the type checks, encoded as 0 / 1)
    for m in ("set", "array", "store", "load", "wait_all", "meas", "ret_arr", "ret_reg", "qalloc", "add", "lea", "undef", "wait_single"):
        if m in isa.TABLE["vanilla"]:
            k += 1
            if ctx.mine(k):
                yield {"kind": "special", "flavour": "vanilla", "mnemonic": m, "slot": -1, "special": "bool-indices",
                       "base": codec.rand_values(rng, isa.TABLE["vanilla"][m][1]), "name": "x"}
    # user-defined flavours: one Flavour subclass instantiated for different devices (different instruction lists), and a
    # flavour object extended after construction - each must print/parse with its OWN instruction set
    for i in range(ctx.n(4, 2000)):
        k += 1
        if ctx.mine(k):
            yield {"kind": "custom-flavour", "flavour": "vanilla", "seed": rng.randrange(2**31)}
    for _ in range(ctx.n(300, 200000)):
        flav = rng.choice(["vanilla", "nv", "reids"])
        names = sorted(isa.TABLE[flav])
        ins = []
        for _ in range(rng.randrange(1, 25)):
            m = rng.choice(names)
            ins.append([m, codec.rand_values(rng, isa.TABLE[flav][m][1])])
        if rng.random() < 0.15:
            # a printed subroutine that names every register of a bank (printed text contains no literal that would need a
            # scratch register, so it must parse however many registers it names)
            bank = rng.choice("RRCQM")
            extra = [["set", [[bank, i], rng.choice(codec.INT32_EDGE)]] for i in range(16)]
            rng.shuffle(extra)
            ins = ins[:len(ins) // 2] + extra + ins[len(ins) // 2:]
        yield {"kind": "subroutine", "flavour": flav, "instrs": ins}


def _check_one(ctx, flav, fobj, m, vals, other=None):
    from netqasm.lang.parsing.text import parse_text_subroutine
    instr = codec.mk_instr(fobj, flav, m, vals)
    ctx.count("print_parse_checks")
    if ctx.counters["print_parse_checks"] % 4 == 1:
        # an instruction that remembers the host line it was compiled from (LogConfig(track_lines=True)) prints the same source
        from netqasm.util.log import HostLine
        instr.lineno = HostLine("app_alice.py", 7)
        text = str(instr)
        instr.lineno = None
        ctx.count("printed_with_a_host_line")
    else:
        text = str(instr)
    try:
        if ctx.counters["print_parse_checks"] % 3 == 0:
            # the inline idiom parse_text_subroutine(text, flavour=NVFlavour()): temporary flavour objects of alternating
            # classes come and go (and their memory addresses are reused)
            other_flav = {"vanilla": "nv", "nv": "vanilla", "reids": "nv"}[flav]
            parse_text_subroutine("set R0 1", flavour=codec.fresh_flavour(other_flav))
            try:
                # (the same mnemonic, where the other flavour has one of that name - its own class)
                parse_text_subroutine(text, flavour=codec.fresh_flavour(other_flav))
            except Exception:
                pass
            parsed = parse_text_subroutine(text, flavour=codec.fresh_flavour(flav)).instructions
        else:
            parsed = parse_text_subroutine(text, flavour=fobj).instructions
    except Exception as e:  # printed text must be valid source
        return f"{flav}: printed text {text!r} does not parse: {type(e).__name__}: {e}"
    if len(parsed) != 1:
        return f"{flav}: printed text {text!r} parses to {len(parsed)} instructions"
    p = parsed[0]
    if type(p) is not type(instr) or codec.describe_instr(p) != [m, vals] or p != instr:
        return f"{flav}: printed text {text!r} parses back as {codec.describe_instr(p)}, expected {[m, vals]}"
    if other is not None:
        # a consumer edits the parsed instruction in place (the NV transpiler re-points registers and branch targets of what
        # it was handed); the same text parsed again must still give the instruction the text denotes
        _EDITS[0] += 1
        codec.edit_in_place(p, codec.mk_instr(fobj, flav, m, other), nested=_EDITS[0] % 2 == 1)
        ctx.count("parse_after_consumer_edit_checks")
        try:
            again = parse_text_subroutine(text, flavour=fobj).instructions
        except Exception as e:
            return f"{flav}: printed text {text!r} does not parse the second time: {type(e).__name__}: {e}"
        if len(again) != 1 or codec.describe_instr(again[0]) != [m, vals]:
            return (f"{flav}: after an earlier parse result was edited in place, the text {text!r} parses as "
                    f"{[codec.describe_instr(x) for x in again]}")
    if other is not None:
        # instructions are mutable (the transpiler retargets branches in place): after its operands were updated
        # the text printed for the *same object* must describe the updated instruction
        _EDITS[0] += 1
        codec.edit_in_place(instr, codec.mk_instr(fobj, flav, m, other), nested=_EDITS[0] % 2 == 0)
        ctx.count("print_after_update_checks")
        text2 = str(instr)
        try:
            parsed2 = parse_text_subroutine(text2, flavour=fobj).instructions
        except Exception as e:
            return f"{flav}: text printed after an operand update {text2!r} does not parse: {type(e).__name__}: {e}"
        if len(parsed2) != 1 or codec.describe_instr(parsed2[0]) != [m, other]:
            return (f"{flav}: after updating operands to {other} the printed text is {text2!r} "
                    f"(parses as {[codec.describe_instr(x) for x in parsed2]})")
    return None


def _custom_flavour(ctx, case):
    """Two device flavours made from one user-defined Flavour subclass, each listing a different part of the vanilla / NV
    instruction sets, created in random order, plus the stock flavours created in between."""
    import random
    from netqasm.lang.instr import flavour as fl
    from netqasm.lang.parsing.text import parse_text_subroutine
    r = random.Random(case["seed"])

    class DeviceFlavour(fl.Flavour):
        def __init__(self, instrs):
            self._instrs = list(instrs)
            super().__init__(self._instrs)

        @property
        def instrs(self):
            return self._instrs

    van = [c for c in codec.flavour_classes("vanilla") if c not in fl.CORE_INSTRUCTIONS]
    nvs = [c for c in codec.flavour_classes("nv") if c not in fl.CORE_INSTRUCTIONS]
    devices = []
    for _ in range(r.choice([2, 3])):
        base, name = r.choice([(van, "vanilla"), (nvs, "nv")])
        devices.append((name, r.sample(base, r.randrange(1, len(base) + 1))))
    objs = []
    for name, lst in devices:
        if r.random() < 0.5:
            codec.fresh_flavour(r.choice(["vanilla", "nv"]))
        objs.append(DeviceFlavour(lst))
    for (name, lst), fobj in zip(devices, objs):
        for cls in lst + r.sample(list(fl.CORE_INSTRUCTIONS), 5):
            ent = isa.TABLE[name].get(cls.mnemonic)
            if ent is None:
                continue
            vals = codec.rand_values(r, ent[1])
            instr = codec.mk_instr_cls(cls, ent[1], vals)
            ctx.count("custom_flavour_print_parse_checks")
            text = str(instr)
            try:
                parsed = parse_text_subroutine(text, flavour=fobj).instructions
            except Exception as e:
                ctx.fail(case, f"device flavour listing {sorted(c.mnemonic for c in lst)}: printed text {text!r} of its own "
                               f"instruction does not parse: {type(e).__name__}: {e}")
                return ctx.case(case, True)
            if len(parsed) != 1 or type(parsed[0]) is not cls or parsed[0] != instr:
                ctx.fail(case, f"device flavour listing {sorted(c.mnemonic for c in lst)}: printed text {text!r} parses back as "
                               f"{type(parsed[0]).__module__.split('.')[-1]}.{type(parsed[0]).__name__} {codec.describe_instr(parsed[0])}")
                return ctx.case(case, True)
    ctx.case(case, True)


def _special(ctx, case):
    from netqasm.lang.operand import Immediate, Template
    from netqasm.lang.parsing.text import parse_text_subroutine
    flav, m, slot = case["flavour"], case["mnemonic"], case["slot"]
    fobj = codec.flavour_obj(flav)
    kinds = isa.TABLE[flav][m][1]
    ops = [codec.mk_operand(kd, v) for kd, v in zip(kinds, case["base"])]
    if case["special"] == "bool-indices":
        from netqasm.lang.operand import Address, ArrayEntry, ArraySlice, Register

        def b(o):
            if isinstance(o, Register):
                return Register(o.name, bool(o.index % 2))
            if isinstance(o, Address):
                return Address(bool(o.address % 2))
            if isinstance(o, ArrayEntry):
                return ArrayEntry(b(o.address), b(o.index))
            if isinstance(o, ArraySlice):
                return ArraySlice(b(o.address), b(o.start), b(o.stop))
            return o
        ops = [b(o) for o in ops]
    else:
        if case["special"] == "carrier":
            # an immediate whose value is an int subclass carrying its value in __int__ / __str__ (a resolved Future used as a number)
            class Carrier(int):
                def __new__(cls, v):
                    o = int.__new__(cls, 0)
                    o.v = v
                    return o
                __int__ = lambda self: self.v
                __eq__ = lambda self, o: self.v == o
                __hash__ = lambda self: hash(self.v)
                __le__ = lambda self, o: self.v <= int(o)
                __ge__ = lambda self, o: self.v >= int(o)
                __lt__ = lambda self, o: self.v < int(o)
                __gt__ = lambda self, o: self.v > int(o)
                __str__ = __repr__ = lambda self: str(self.v)
            ops[slot] = Immediate(Carrier(3))
        else:
            ops[slot] = Template(case["name"]) if case["special"] == "template" else Immediate(case["special"] == "true")
    try:
        instr = fobj.get_instr_by_name(m).from_operands(ops)
    except Exception:
        instr = None
        if case["special"] == "template" and m.startswith("rot_"):
            # the instruction object can also be had by filling the field in (what the SDK's builder does with its own objects):
            # a template in either immediate of a rotation is a documented operand
            try:
                plain = [codec.mk_operand(kd, v) for kd, v in zip(kinds, case["base"])]
                instr = fobj.get_instr_by_name(m).from_operands(plain)
                setattr(instr, ("reg", "imm0", "imm1")[slot], ops[slot])
            except Exception:
                instr = None
        if instr is None:
            ctx.count("special_operand_not_accepted")
            return ctx.case(case, False)
    if case.get("with_lineno"):
        from netqasm.util.log import HostLine
        instr.lineno = HostLine("app_alice.py", 12)       # where the instruction came from is not part of its text
    text = str(instr)
    ctx.count("special_operand_print_parse_checks")
    try:
        parsed = parse_text_subroutine(text, flavour=fobj).instructions
    except Exception as e:
        ctx.fail(case, f"{flav}: the text {text!r} printed for {m} with a {case['special']} operand does not parse: {type(e).__name__}: {str(e)[:100]}")
        return ctx.case(case, True)
    if case.get("with_lineno"):
        instr.lineno = None
    if len(parsed) != 1 or parsed[0] != instr:
        ctx.fail(case, f"{flav}: the text {text!r} printed for {m} with a {case['special']} operand parses back as {[str(x) for x in parsed]} "
                       f"({[type(o).__name__ for o in parsed[0].operands] if parsed else ''})")
    ctx.case(case, True)


def run_case(ctx, case):
    from netqasm.lang.parsing import deserialize
    from netqasm.lang.parsing.text import parse_text_subroutine
    if case["kind"] == "special":
        return _special(ctx, case)
    if case["kind"] == "custom-flavour":
        return _custom_flavour(ctx, case)
    flav = case["flavour"]
    fobj = codec.flavour_obj(flav)
    if case["kind"] == "sweep":
        m = case["mnemonic"]
        kinds = isa.TABLE[flav][m][1]
        pos = tuple(case["pos"]) if case["pos"] else None
        values = [case["base"]] if pos is None else [
            codec.set_leaf(case["base"], pos, v) for v in codec.all_leaf_values(pos[2], True)]
        prev = None
        for vals in values:
            err = _check_one(ctx, flav, fobj, m, vals, other=prev)
            if err:
                ctx.fail({"kind": "single", "flavour": flav, "mnemonic": m, "values": vals, "other": prev}, err)
                break
            prev = vals
        ctx.case(case, nontrivial=bool(kinds))
        return
    if case["kind"] == "single":
        err = _check_one(ctx, flav, fobj, case["mnemonic"], case["values"], other=case.get("other"))
        if err:
            ctx.fail(case, err)
        ctx.case(case)
        return
    # whole subroutine: text -> binary -> text stable
    objs = [codec.mk_instr(fobj, flav, m, v) for m, v in case["instrs"]]
    text1 = "\n".join(str(o) for o in objs)
    ctx.count("print_parse_checks", len(objs))
    try:
        sub = parse_text_subroutine(PRE + text1, flavour=fobj)
        raw = bytes(sub)
        back = deserialize(raw, flavour=fobj)
        text2 = "\n".join(str(o) for o in back.instructions)
    except Exception as e:
        ctx.fail(case, f"{flav}: text -> binary -> text failed with {type(e).__name__}: {e}")
        ctx.case(case)
        return
    if text2 != text1:
        a, b = text1.split("\n"), text2.split("\n")
        d = next((f"{x!r} -> {y!r}" for x, y in zip(a, b) if x != y), f"{len(a)} lines -> {len(b)} lines")
        ctx.fail(case, f"{flav}: text -> binary -> text is not stable: {d}")
    elif [codec.describe_instr(i) for i in sub.instructions] != [[m, v] for m, v in case["instrs"]]:
        ctx.fail(case, f"{flav}: parsed subroutine differs from the instructions that were printed")
    elif raw != isa.encode_subroutine(flav, [1, 0], 0, case["instrs"]):
        ctx.fail(case, f"{flav}: bytes of the re-parsed text differ from the reference encoding of the same program")
    else:
        # the printed text exactly as the printer writes it (no `# NETQASM` / `# APPID` lines): it parses, and with an application
        # id set through the public setter it serialises to the same instruction bytes under the current version
        ctx.count("preamble_less_text_checks")
        try:
            bare = parse_text_subroutine(text1, flavour=fobj)
            bare.app_id = 0
            raw_bare = bytes(bare)
        except Exception as e:
            ctx.fail(case, f"{flav}: the printed text without a preamble parses but cannot be serialised: {type(e).__name__}: {str(e)[:100]}")
            return ctx.case(case)
        if raw_bare[4:] != raw[4:] or len(objs) != len(bare.instructions):
            ctx.fail(case, f"{flav}: the printed text without a preamble serialises to other instruction bytes than with one")
    # the NV transpiler (or any consumer) edits the instructions of a parsed subroutine in place; parsing the same source
    # again afterwards must give the program the source denotes
    for ins_, (m, _) in zip(sub.instructions, case["instrs"]):
        _EDITS[0] += 1
        codec.edit_in_place(ins_, codec.mk_instr(fobj, flav, m, codec.rand_values(ctx.rng, isa.TABLE[flav][m][1])), nested=_EDITS[0] % 2 == 1)
    ctx.count("parse_after_consumer_edit_checks")
    try:
        sub2 = parse_text_subroutine(PRE + text1, flavour=fobj)
    except Exception as e:
        ctx.fail(case, f"{flav}: the same source does not parse a second time: {type(e).__name__}: {e}")
        return ctx.case(case, True)
    if [codec.describe_instr(i) for i in sub2.instructions] != [[m, v] for m, v in case["instrs"]]:
        bad = next((f"{w} parsed as {g}" for g, w in zip([codec.describe_instr(i) for i in sub2.instructions], case["instrs"]) if g != [w[0], w[1]]), "length")
        ctx.fail(case, f"{flav}: after the instructions of an earlier parse were edited in place, the same source parses differently: {bad}")
        return ctx.case(case, True)
    ctx.case(case, nontrivial=True)
