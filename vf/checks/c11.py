"""C11 — EPR requests and results cross the SDK/controller boundary intact (L3 pipeline, recording stack, tagged responses)."""
from __future__ import annotations

import itertools

from vf.harness import controller as hc
from vf.harness.link import LinkModel, PlannedRequest
from vf.harness.pipeline import Pipe

PID = "C11"
LEVEL = "exploration"
RULE = ("request side: K/M/R x pair counts 1..4 x all TimeUnit / RandomBasis / EprMeasBasis members x rotation triples from "
        "{0,1,8,16,24,31}^3 x max_time {0,1,2^31-1} x socket ids {0,1,3} x remote node ids {1,2} x explicit vs default "
        "arguments; the LinkLayerCreate that the recording network stack receives is compared field by field with the "
        "arguments and converted with request_to_qlink_1_0 (K, M). Result side: both roles, K/M/R, 1..4 pairs, responses "
        "whose every free field carries a unique tag 1000*pair + 10*field + 7 and whose Bell state / basis vary per "
        "pair; every host handle (qubit.entanglement_info.*, remote_entangled_node, EprKeepResult.*, EprMeasureResult.*) "
        "must read the tagged field of ITS pair."
        " Request sessions: up to two connections of one host open at once on a long-lived controller, each building create_measure calls (parameters from a small pool, two remotes) before either flushes; closed connections are followed by successors with the same application id, EPR socket objects are reused, the network numbering changes between runs; every request reaching the stack during a flush is compared with that connection's next call. "
        ' Result cases also with qlink-interface 1.0 response objects; request cases also through the older create(tp=..) entry point. '
        "Non-trivial = number >= 2 or any non-default argument; distinct = "
        "distinct case description.")
ASSUMPTIONS = ["responses are well-formed link-layer tuples; purpose id = EPR socket id (the recording stack's mapping)",
               "with max_time == 0 there is no time limit, so the time unit that reaches the stack is not judged",
               "R-type requests have no qlink-1.0 conversion in this code base; the conversion check covers K and M"]
SHARDS = {"quick": 4, "thorough": 16}
MIN_COUNTERS = {"request_fields_compared": 2000, "result_handles_read": 1000, "qlink_conversions": 100}
MIN_NONTRIVIAL = {"quick": 200, "thorough": 2000}
WALL_BUDGET = {"quick": 200, "thorough": 2400}

ROTS = [0, 1, 8, 16, 24, 31]
K_FIELDS = ["type", "create_id", "logical_qubit_id", "directionality_flag", "sequence_number", "purpose_id", "remote_node_id",
            "goodness", "goodness_time", "bell_state"]
M_FIELDS = ["type", "create_id", "measurement_outcome", "measurement_basis", "directionality_flag", "sequence_number",
            "purpose_id", "remote_node_id", "goodness", "bell_state"]
BASIS_ROT = {"X": (0, 24, 0), "Y": (8, 0, 0), "Z": (0, 0, 0), "MX": (0, 8, 0), "MY": (24, 0, 0), "MZ": (16, 0, 0)}


def tag(pair, fields, name):
    return 1000 * (pair + 1) + 10 * fields.index(name) + 7


def cases(ctx):
    rng = ctx.rng
    k = 0

    def mine():
        nonlocal k
        k += 1
        return ctx.mine(k)
    # ---- request side ------------------------------------------------------------------------------------
    for tp in ("K", "M", "R"):
        for number in (1, 2, 3, 4):
            for tu in ("MICRO_SECONDS", "MILLI_SECONDS", "SECONDS"):
                for mt in (0, 1, 2**31 - 1):
                    if mine():
                        yield {"kind": "request", "type": tp, "number": number, "time_unit": tu, "max_time": mt,
                               "socket": rng.choice([0, 1, 3]), "remote": rng.choice(["bob", "charlie"])}
    for tp in ("M", "R"):
        for rb_l in (None, "NONE", "XZ", "XYZ", "CHSH"):
            for rb_r in ((None, "NONE", "XZ", "XYZ", "CHSH") if tp == "M" else (None,)):
                if mine():
                    yield {"kind": "request", "type": tp, "number": rng.choice([1, 2]), "random_basis_local": rb_l,
                           "random_basis_remote": rb_r, "socket": 0, "remote": "bob"}
        for bl in ("X", "Y", "Z", "MX", "MY", "MZ"):
            for br in (("X", "Y", "Z", "MX", "MY", "MZ") if tp == "M" else (None,)):
                if mine():
                    yield {"kind": "request", "type": tp, "number": 1, "basis_local": bl, "basis_remote": br, "socket": 0, "remote": "bob"}
        triples = list(itertools.product(ROTS, repeat=3))
        n_rot = ctx.n(500, 40000) * ctx.nshards
        for _ in range(n_rot):
            if mine():
                yield {"kind": "request", "type": tp, "number": rng.choice([1, 2, 3]), "rotations_local": list(rng.choice(triples)),
                       "rotations_remote": list(rng.choice(triples)) if tp == "M" else None, "max_time": rng.choice([0, 5]),
                       "time_unit": rng.choice(["MICRO_SECONDS", "SECONDS"]), "socket": rng.choice([0, 2]), "remote": "bob"}
    for number in (1, 2, 3):
        for extra in ({}, {"max_time": 5, "time_unit": "SECONDS"}, {"max_time": 7, "time_unit": "MILLI_SECONDS"}, {"max_time": 1},
                      {"max_time": 3, "time_unit": "MICRO_SECONDS"}):
            if mine():
                yield dict({"kind": "request", "type": "K", "number": number, "socket": rng.choice([0, 1]), "remote": rng.choice(["bob", "charlie"]),
                            "with_info": True}, **extra)
    for number in (1, 2):
        for extra in ({}, {"max_time": 5, "time_unit": "SECONDS"}, {"max_time": 7, "time_unit": "MILLI_SECONDS"}, {"max_time": 1}):
            for fid in (50, 80, 95):
                if mine():
                    yield dict({"kind": "request", "type": "K", "number": number, "socket": 0, "remote": "bob", "fidelity": fid}, **extra)
    # a random-basis set AND fixed rotations / a named basis given for the same side: every keyword reaches the stack as passed
    for tp in ("M", "R"):
        for extra in ({"random_basis_local": "XZ", "rotations_local": [1, 2, 3]}, {"random_basis_local": "NONE", "rotations_local": [8, 0, 31]},
                      {"random_basis_local": "CHSH", "basis_local": "X"}, {"random_basis_remote": "XYZ", "rotations_remote": [3, 2, 1]},
                      {"random_basis_remote": "NONE", "basis_remote": "MY"},
                      {"random_basis_local": "XZ", "random_basis_remote": "XZ", "rotations_local": [1, 1, 1], "rotations_remote": [2, 2, 2]}):
            if tp == "R" and any(k_.endswith("remote") for k_ in extra):
                continue
            if mine():
                yield dict({"kind": "request", "type": tp, "number": rng.choice([1, 2]), "socket": 0, "remote": "bob"}, **extra)
    for tp in ("K", "M", "R"):
        for number in (1, 2, 3):
            if mine():
                yield {"kind": "request", "type": tp, "number": number, "socket": 0, "remote": "bob", "number_from_host": True}
    # a request the SDK refuses (more pairs than the node has qubits, wrapped in the retry loop of a fidelity bound) between two
    # requests it accepts, all in one subroutine: both accepted requests reach the stack
    for n1 in (1, 2):
        for refused in ("keep-min-fidelity",):
            if mine():
                yield {"kind": "refused-between", "first": n1, "refused": refused}
    # a repeater node: one local socket id towards two remote nodes, on a network stack whose purpose ids are per (remote, socket)
    for sid in (0, 1, 3):
        for order in (["bob", "charlie"], ["charlie", "bob"], ["bob", "charlie", "bob"]):
            if mine():
                yield {"kind": "repeater", "socket": sid, "order": order, "type": rng.choice("KM")}
    # a named basis AND a rotation triple given for the same side of one call: whichever of the two the SDK lets win, it is the
    # same one for every member of the basis enumeration (and the stack receives one of the two, nothing else)
    for tp, side, via in (("M", "local", False), ("M", "remote", False), ("R", "local", False), ("M", "local", True)):
        if mine():
            yield {"kind": "both-given", "type": tp, "side": side, "via_create": via, "rotations": [rng.randrange(1, 32) for _ in range(3)]}
    for tp in ("K", "M", "R"):
        for extra in ({}, {"rotations_local": [1, 2, 3]}, {"basis_local": "X"}, {"random_basis_local": "XZ"}, {"max_time": 5, "time_unit": "SECONDS"},
                      {"rotations_local": [8, 0, 31], "rotations_remote": [1, 1, 1]}):
            if tp == "K" and any(x in extra for x in ("rotations_local", "basis_local", "random_basis_local", "rotations_remote")):
                continue
            if tp == "R" and "rotations_remote" in extra:
                continue
            if mine():
                yield dict({"kind": "request", "type": tp, "number": rng.choice([1, 2]), "socket": 0, "remote": "bob", "via_create": True}, **extra)
    # several create calls in ONE subroutine whose parameters are permutations of each other
    pool = [{"basis_local": "X"}, {"basis_remote": "X"}, {"random_basis_local": "XZ"}, {"random_basis_remote": "XZ"},
            {"rotations_local": [1, 8, 16]}, {"rotations_remote": [1, 8, 16]}, {"rotations_local": [16, 8, 1]},
            {"basis_local": "Y", "basis_remote": "Z"}, {"basis_local": "Z", "basis_remote": "Y"}, {"max_time": 5, "time_unit": "SECONDS"},
            {"max_time": 2, "time_unit": "MILLI_SECONDS"}, {}]
    for _ in range(ctx.n(150, 30000) * ctx.nshards):
        if mine():
            k_req = rng.choice([2, 2, 3])
            number = rng.choice([1, 2])
            yield {"kind": "requests", "type": "M", "number": number, "socket": 0, "remote": "bob",
                   "params": [dict(rng.choice(pool)) for _ in range(k_req)]}
    for n0 in (1, 2, 3):
        for n1 in (1, 2):
            if mine():
                yield {"kind": "early", "numbers": [n0, n1]}
    for _ in range(ctx.n(60, 20000) * ctx.nshards):
        if mine():
            yield {"kind": "request-session", "steps": rng.choice([25, 50]), "seed": rng.randrange(2**31)}
    # ---- result side --------------------------------------------------------------------------------------
    for role in ("create", "recv"):
        for api in ("keep", "keep_with_info", "measure", "rsp", "context"):
            for number in (1, 2, 3, 4):
                reps = 8 if ctx.quick else 60
                for _ in range(reps):
                    if mine():
                        yield {"kind": "result", "role": role, "api": api, "number": number,
                               "bells": [rng.randrange(4) for _ in range(number)], "bases": [rng.randrange(5) for _ in range(number)],
                               "remote": rng.choice(["bob", "charlie"]), "socket": rng.choice([0, 1])}
                # the application runs on another node than node 0, and the peer IS node 0 (a remote node id of 0 is a value, not "none")
                if mine():
                    yield {"kind": "result", "role": role, "api": api, "number": number, "local": rng.choice(["bob", "charlie"]), "remote": "alice",
                           "bells": [rng.randrange(4) for _ in range(number)], "bases": [rng.randrange(5) for _ in range(number)],
                           "socket": rng.choice([0, 1])}
                # the link layer answers with qlink-interface 1.0 objects (its own Bell-state enum; goodness_time = time_of_goodness)
                if api in ("keep", "keep_with_info", "measure") and mine():
                    yield {"kind": "result", "role": role, "api": api, "number": number, "qlink10": True,
                           "bells": [rng.randrange(4) for _ in range(number)], "bases": [rng.randrange(5) for _ in range(number)],
                           "remote": rng.choice(["bob", "charlie"]), "socket": rng.choice([0, 1])}
                # single-communication-qubit (NV) hardware: the pairs are moved to memory qubits n-1 .. 0
                if api in ("keep", "keep_with_info", "measure", "context") and mine():
                    yield {"kind": "result", "role": role, "api": api, "number": number, "hardware": "nv",
                           "bells": [rng.randrange(4) for _ in range(number)], "bases": [rng.randrange(5) for _ in range(number)],
                           "remote": rng.choice(["bob", "charlie"]), "socket": rng.choice([0, 1])}


def _requests(ctx, case):
    """Several create_measure calls in one subroutine: the i-th request that reaches the stack carries the i-th call's parameters."""
    from netqasm import qlink_compat as ql
    from netqasm.sdk.build_epr import EprMeasBasis
    from netqasm.sdk.epr_socket import EPRSocket
    es = EPRSocket(case["remote"], epr_socket_id=case["socket"], remote_epr_socket_id=case["socket"])
    def fld(base):
        return lambda pair, name: (base + tag(pair, M_FIELDS, name)) if name in ("create_id", "goodness", "measurement_outcome") else None
    plan = [PlannedRequest("create", "M", case["number"], remote=NODE_IDS[case["remote"]], socket=case["socket"], fields=fld(10000 * (j + 1)))
            for j, _ in enumerate(case["params"])]
    link = LinkModel(plan, partners=False)
    pipe = Pipe(epr_sockets=[es], link=link, max_qubits=5)
    results = []
    try:
        with pipe.conn as conn:
            for prm in case["params"]:
                kw = {}
                for k2, v in prm.items():
                    if k2 == "time_unit":
                        kw[k2] = ql.TimeUnit[v]
                    elif k2.startswith("random_basis"):
                        kw[k2] = ql.RandomBasis[v]
                    elif k2.startswith("basis"):
                        kw[k2] = EprMeasBasis[v]
                    elif k2.startswith("rotations"):
                        kw[k2] = tuple(v)
                    else:
                        kw[k2] = v
                results.append(es.create_measure(case["number"], **kw))
            conn.flush()
            # result side: all these requests were outstanding on ONE socket at the same time; the handles of the j-th call
            # read the responses generated for the j-th request
            for j, res in enumerate(results):
                for i, r in enumerate(res):
                    ctx.count("result_handles_read", 2)
                    want_o = 10000 * (j + 1) + tag(i, M_FIELDS, "measurement_outcome")
                    want_g = 10000 * (j + 1) + tag(i, M_FIELDS, "goodness")
                    if r.raw_measurement_outcome.value != want_o or r.generation_duration.value != want_g:
                        ctx.fail(case, f"{len(results)} requests outstanding on one socket: call {j}, pair {i}: handles read outcome "
                                       f"{r.raw_measurement_outcome.value} / duration {r.generation_duration.value}; the responses generated for that "
                                       f"request carried {want_o} / {want_g}")
                        return ctx.case(case, True)
    except (hc.ControllerFault, hc.Deadlock, hc.StepLimit) as e:
        ctx.fail(case, f"{len(case['params'])} create_measure calls in one subroutine: controller run failed: {e}")
        return ctx.case(case, True)
    puts = pipe.stack.puts
    if len(puts) != len(case["params"]):
        ctx.fail(case, f"{len(case['params'])} create calls but {len(puts)} requests reached the network stack")
        return ctx.case(case, True)

    def plain(v):
        return v.value if hasattr(v, "value") and not isinstance(v, int) else v
    for i, (got, prm) in enumerate(zip(puts, case["params"])):
        rl = tuple(prm.get("rotations_local") or (BASIS_ROT[prm["basis_local"]] if prm.get("basis_local") else (0, 0, 0)))
        rr = tuple(prm.get("rotations_remote") or (BASIS_ROT[prm["basis_remote"]] if prm.get("basis_remote") else (0, 0, 0)))
        want = {"number": case["number"], "type": 1, "max_time": prm.get("max_time", 0),
                "random_basis_local": {None: 0, "XZ": 1}[prm.get("random_basis_local")],
                "random_basis_remote": {None: 0, "XZ": 1}[prm.get("random_basis_remote")],
                "rotation_X_local1": rl[0], "rotation_Y_local": rl[1], "rotation_X_local2": rl[2],
                "rotation_X_remote1": rr[0], "rotation_Y_remote": rr[1], "rotation_X_remote2": rr[2]}
        if prm.get("max_time"):
            want["time_unit"] = {"MICRO_SECONDS": 0, "MILLI_SECONDS": 1, "SECONDS": 2}[prm.get("time_unit", "MICRO_SECONDS")]
        for f, w in want.items():
            ctx.count("request_fields_compared")
            if plain(getattr(got, f)) != w:
                ctx.fail(case, f"request {i} of {len(puts)} in one subroutine ({prm}): field {f} reaches the network stack as "
                               f"{getattr(got, f)!r}, the application passed {w}")
                return ctx.case(case, True)
    ctx.case(case, True)


def _early(ctx, case):
    """Two sockets: the pairs for the second socket arrive before its recv instruction has run (the remote node was faster)."""
    from netqasm.sdk.epr_socket import EPRSocket
    n0, n1 = case["numbers"]
    es0 = EPRSocket("bob", epr_socket_id=0, remote_epr_socket_id=0)
    es1 = EPRSocket("bob", epr_socket_id=1, remote_epr_socket_id=1)

    def fld(base):
        return lambda pair, name: (base + tag(pair, M_FIELDS, name)) if name in ("create_id", "goodness", "measurement_outcome") else None
    r0 = PlannedRequest("recv", "M", n0, socket=0, bells=[(i + 1) % 4 for i in range(n0)], fields=fld(0))
    r1 = PlannedRequest("recv", "M", n1, socket=1, bells=[(i + 2) % 4 for i in range(n1)], fields=fld(50000))
    r1.early = True
    link = LinkModel([r0, r1], partners=False)
    pipe = Pipe(epr_sockets=[es0, es1], link=link, max_qubits=5)
    try:
        with pipe.conn as conn:
            m0 = es0.recv_measure(n0, expect_phi_plus=False)
            m1 = es1.recv_measure(n1, expect_phi_plus=False)
            conn.flush()
            for base, res, sock in ((0, m0, 0), (50000, m1, 1)):
                for i, r in enumerate(res):
                    ctx.count("result_handles_read", 2)
                    want_o = base + tag(i, M_FIELDS, "measurement_outcome")
                    want_g = base + tag(i, M_FIELDS, "goodness")
                    if r.raw_measurement_outcome.value != want_o or r.generation_duration.value != want_g:
                        ctx.fail(case, f"socket {sock}, pair {i}: handles read outcome {r.raw_measurement_outcome.value} / duration "
                                       f"{r.generation_duration.value}; that pair's response carried {want_o} / {want_g} "
                                       f"(the other socket's pairs arrived before its recv instruction ran)")
                        return ctx.case(case, True)
    except (hc.ControllerFault, hc.Deadlock, hc.StepLimit) as e:
        ctx.fail(case, f"two sockets with early arrivals: controller run failed: {e}")
        return ctx.case(case, True)
    ctx.count("early_arrival_cases")
    ctx.case(case, True)


POOL = [{}, {"max_time": 5, "time_unit": "SECONDS"}, {"max_time": 2, "time_unit": "MILLI_SECONDS"}, {"basis_local": "X"},
        {"basis_remote": "X"}, {"rotations_local": [1, 8, 16]}, {"rotations_remote": [16, 8, 1]}, {"random_basis_local": "XZ"}]


def _req_session(ctx, case):
    """A long-lived controller and a host whose connections come and go (two may be open at once, each building requests before
    either is flushed; a closed one is followed by another with the same application id; EPR socket objects are reused by the
    next connection; the network's node numbering may change between runs).  Every request that reaches the network stack
    during a flush must be the next create call of THAT connection: its parameters, its remote node, its socket."""
    import random
    from netqasm import qlink_compat as ql
    from netqasm.sdk.build_epr import EprMeasBasis
    from netqasm.sdk.epr_socket import EPRSocket
    r = random.Random(case["seed"])
    ids = dict(NODE_IDS)
    link = LinkModel([], partners=False)

    def new_socks():
        return {"bob": EPRSocket("bob", epr_socket_id=0, remote_epr_socket_id=0), "charlie": EPRSocket("charlie", epr_socket_id=1, remote_epr_socket_id=1)}
    socks0 = new_socks()
    pipe = Pipe(epr_sockets=list(socks0.values()), link=link, max_qubits=2)
    conns = {0: {"conn": pipe.conn, "socks": socks0, "pending": [], "ids": dict(ids)}}
    spare_socks = []
    nxt = 1
    hist = []

    def kwargs(prm):
        kw = {}
        for k2, v in prm.items():
            kw[k2] = (ql.TimeUnit[v] if k2 == "time_unit" else ql.RandomBasis[v] if k2.startswith("random_basis") else
                      EprMeasBasis[v] if k2.startswith("basis") else tuple(v) if k2.startswith("rotations") else v)
        return kw

    def plain(v):
        return v.value if hasattr(v, "value") and not isinstance(v, int) else v

    def flush(slot):
        c = conns[slot]
        for e in c["pending"]:
            link.plan.append(PlannedRequest("create", "M", e["number"], remote=e["remote_node_id"], socket=e["purpose_id"]))
        n0 = len(pipe.stack.puts)
        c["conn"].flush()
        got = pipe.stack.puts[n0:]
        if len(got) != len(c["pending"]):
            return f"connection {slot} (app id {c['conn'].app_id}) issued {len(c['pending'])} create calls but {len(got)} requests reached the network stack"
        for i, (g, e) in enumerate(zip(got, c["pending"])):
            for f, w in e.items():
                if f == "call":
                    continue
                ctx.count("request_fields_compared")
                if plain(getattr(g, f)) != w:
                    return (f"connection {slot} (app id {c['conn'].app_id}), request {i} of this flush ({e['call']}): field {f} reaches the network "
                            f"stack as {plain(getattr(g, f))!r}, the application passed {w}")
        ctx.count("session_requests_compared", len(got))
        c["pending"] = []
        return None
    try:
        for step in range(case["steps"]):
            k = r.choice(["create", "create", "create", "flush", "open", "close", "renumber"])
            if k == "open" and len(conns) < 2:
                socks = spare_socks.pop() if (spare_socks and r.random() < 0.6) else new_socks()
                conns[nxt] = {"conn": pipe.open(epr_sockets=list(socks.values()), max_qubits=2), "socks": socks, "pending": [], "ids": dict(ids)}
                hist.append(("open", nxt, conns[nxt]["conn"].app_id))
                ctx.count("session_connections_opened")
                nxt += 1
                continue
            if k == "renumber" and not conns:
                ids["bob"], ids["charlie"] = r.choice([(1, 2), (2, 1), (5, 7), (7, 1)])
                hc.set_node_ids(ids)
                hist.append(("renumber", ids["bob"], ids["charlie"]))
                ctx.count("session_renumberings")
                continue
            if not conns:
                continue
            slot = r.choice(sorted(conns))
            c = conns[slot]
            if k == "create":
                who = r.choice(["bob", "bob", "charlie"])
                prm = dict(r.choice(POOL))
                number = r.choice([1, 1, 2])
                c["socks"][who].create_measure(number, **kwargs(prm))
                rl = tuple(prm.get("rotations_local") or (BASIS_ROT[prm["basis_local"]] if prm.get("basis_local") else (0, 0, 0)))
                rr = tuple(prm.get("rotations_remote") or (BASIS_ROT[prm["basis_remote"]] if prm.get("basis_remote") else (0, 0, 0)))
                e = {"call": f"create_measure({number}, {prm}) to {who}", "remote_node_id": c["ids"][who], "purpose_id": 0 if who == "bob" else 1,
                     "number": number, "type": 1, "max_time": prm.get("max_time", 0),
                     "random_basis_local": 1 if prm.get("random_basis_local") else 0,
                     "rotation_X_local1": rl[0], "rotation_Y_local": rl[1], "rotation_X_local2": rl[2],
                     "rotation_X_remote1": rr[0], "rotation_Y_remote": rr[1], "rotation_X_remote2": rr[2]}
                if prm.get("max_time"):
                    e["time_unit"] = {"MICRO_SECONDS": 0, "MILLI_SECONDS": 1, "SECONDS": 2}[prm["time_unit"]]
                c["pending"].append(e)
                hist.append(("create", slot, who, number, prm))
            elif k == "flush":
                hist.append(("flush", slot))
                err = flush(slot)
                if err:
                    ctx.fail(case, f"host history {hist[-10:]}: {err}")
                    return ctx.case(case, True)
            elif k == "close":
                hist.append(("close", slot))
                err = flush(slot)
                if err:
                    ctx.fail(case, f"host history {hist[-10:]}: {err}")
                    return ctx.case(case, True)
                c["conn"].close()
                spare_socks.append(c["socks"])
                del conns[slot]
        for slot in list(conns):
            err = flush(slot)
            if err:
                ctx.fail(case, f"host history {hist[-10:]}: {err}")
                return ctx.case(case, True)
            conns[slot]["conn"].close()
    except (hc.ControllerFault, hc.Deadlock, hc.StepLimit) as e:
        ctx.fail(case, f"host history {hist[-10:]}: controller run failed: {e}")
    finally:
        hc.set_node_ids(NODE_IDS)
    ctx.case(case, True)


def run_case(ctx, case):
    if case["kind"] == "request-session":
        return _req_session(ctx, case)
    if case["kind"] == "early":
        return _early(ctx, case)
    if case["kind"] == "requests":
        return _requests(ctx, case)
    if case["kind"] == "refused-between":
        return _refused_between(ctx, case)
    if case["kind"] == "repeater":
        return _repeater(ctx, case)
    if case["kind"] == "both-given":
        return _both_given(ctx, case)
    if case["kind"] == "request":
        _request(ctx, case)
    else:
        _result(ctx, case)


NODE_IDS = {"alice": 0, "bob": 1, "charlie": 2}


def _refused_between(ctx, case):
    from netqasm.sdk.epr_socket import EPRSocket
    from netqasm.sdk.futures import Future
    es = EPRSocket("bob", epr_socket_id=0, remote_epr_socket_id=0)
    n1 = case["first"]
    plan = [PlannedRequest("create", "M", n1, remote=NODE_IDS["bob"], socket=0), PlannedRequest("create", "M", 1, remote=NODE_IDS["bob"], socket=0)]
    pipe = Pipe(epr_sockets=[es], link=LinkModel(plan, partners=False), max_qubits=5)
    try:
        with pipe.conn as conn:
            es.create_measure(n1, max_time=9)
            try:
                if case["refused"] == "keep-min-fidelity":
                    es.create_keep(number=7, min_fidelity_all_at_end=80, max_tries=3)
                else:
                    unknown = Future(conn, address=0, index=0)       # a value the host does not have yet
                    with conn.loop(unknown):
                        pass
                ctx.count("refusal_expected_but_accepted")
                return ctx.case(case, False)
            except Exception:
                ctx.count("requests_refused_between_accepted_ones")
            es.create_measure(1)
            conn.flush()
    except (hc.ControllerFault, hc.Deadlock, hc.StepLimit) as e:
        ctx.fail(case, f"create_measure({n1}); a refused operation ({case['refused']}); create_measure(1); flush: controller run failed: {str(e)[:200]}")
        return ctx.case(case, True)
    got = [(p.number, p.max_time) for p in pipe.stack.puts]
    if got != [(n1, 9), (1, 0)]:
        ctx.fail(case, f"create_measure({n1}, max_time=9); a refused operation ({case['refused']}); create_measure(1); flush: the network stack "
                       f"received (number, max_time) {got} - both accepted requests were to arrive, in order")
    ctx.case(case, True)


def _repeater(ctx, case):
    from netqasm.sdk.epr_socket import EPRSocket
    sid, tp = case["socket"], case["type"]
    socks = {who: EPRSocket(who, epr_socket_id=sid, remote_epr_socket_id=sid) for who in ("bob", "charlie")}

    def purpose(remote, socket):
        return 10 * remote + socket + 3
    plan = [PlannedRequest("create", tp, 1, remote=NODE_IDS[who], socket=purpose(NODE_IDS[who], sid)) for who in case["order"]]
    pipe = Pipe(epr_sockets=list(socks.values()), link=LinkModel(plan, partners=False), max_qubits=5)
    pipe.stack.purpose_of = purpose
    try:
        with pipe.conn as conn:
            for who in case["order"]:
                if tp == "K":
                    for q in socks[who].create_keep(1):
                        q.measure()
                else:
                    socks[who].create_measure(1)
            conn.flush()
    except (hc.ControllerFault, hc.Deadlock, hc.StepLimit) as e:
        ctx.fail(case, f"repeater node (socket id {sid} to bob and to charlie, create_{tp} to {case['order']}): controller run failed: {str(e)[:200]}")
        return ctx.case(case, True)
    got = [(p.remote_node_id, p.purpose_id) for p in pipe.stack.puts]
    want = [(NODE_IDS[who], purpose(NODE_IDS[who], sid)) for who in case["order"]]
    ctx.count("repeater_requests_compared", len(want))
    if got != want:
        ctx.fail(case, f"repeater node (socket id {sid} to bob and to charlie): create_{tp} calls to {case['order']} reach the network "
                       f"stack as (remote node, purpose id) {got}; the stack's purpose ids for these sockets are {want}")
    ctx.case(case, True)


def _both_given(ctx, case):
    from netqasm.sdk.build_epr import EPRType, EprMeasBasis
    from netqasm.sdk.epr_socket import EPRSocket
    tp, side, rot = case["type"], case["side"], tuple(case["rotations"])
    rules = {}
    for b in BASIS_ROT:
        es = EPRSocket("bob", epr_socket_id=0, remote_epr_socket_id=0)
        link = LinkModel([PlannedRequest("create", tp, 1, remote=NODE_IDS["bob"], socket=0)], partners=False)
        pipe = Pipe(epr_sockets=[es], link=link, max_qubits=5)
        kw = {f"basis_{side}": EprMeasBasis[b], f"rotations_{side}": rot}
        try:
            with pipe.conn as conn:
                if case["via_create"]:
                    es.create(number=1, tp=EPRType[tp], **kw)
                elif tp == "M":
                    es.create_measure(1, **kw)
                else:
                    es.create_rsp(1, **kw)
                conn.flush()
        except (hc.ControllerFault, hc.Deadlock, hc.StepLimit) as e:
            ctx.fail(case, f"create_{tp}({kw}): controller run failed: {e}")
            return ctx.case(case, True)
        if len(pipe.stack.puts) != 1:
            ctx.fail(case, f"{len(pipe.stack.puts)} requests reached the network stack for one create call")
            return ctx.case(case, True)
        got = pipe.stack.puts[0]
        sfx = [f"rotation_X_{side}1", f"rotation_Y_{side}", f"rotation_X_{side}2"]
        triple = tuple(getattr(got, f) for f in sfx)
        ctx.count("named_basis_plus_rotations_calls")
        # (a triple that happens to equal the basis's own rotations decides nothing)
        rules[b] = "either" if rot == BASIS_ROT[b] else "basis" if triple == BASIS_ROT[b] else "rotations" if triple == rot else f"neither ({triple})"
    decided = {r for r in rules.values() if r != "either"}
    if any(r.startswith("neither") for r in decided) or len(decided) > 1:
        ctx.fail(case, f"create_{tp}: a named {side} basis given together with {side} rotations {rot}: which of the two reaches the "
                       f"network stack depends on the basis member: {rules}")
    ctx.case(case, True)


def _request(ctx, case):
    from netqasm import qlink_compat as ql
    from netqasm.sdk.build_epr import EprMeasBasis
    from netqasm.sdk.epr_socket import EPRSocket
    tp, number = case["type"], case["number"]
    # (the peer's socket id is another number than the local one: only the LOCAL id is the purpose id of requests and responses)
    es = EPRSocket(case["remote"], epr_socket_id=case["socket"], remote_epr_socket_id=case["socket"] + 2)
    req = PlannedRequest("create", tp, number, remote=NODE_IDS[case["remote"]], socket=case["socket"])
    link = LinkModel([req], partners=False)
    pipe = Pipe(epr_sockets=[es], link=link, max_qubits=5)
    kw = {}
    if "time_unit" in case:
        kw["time_unit"] = ql.TimeUnit[case["time_unit"]]
    if "max_time" in case:
        kw["max_time"] = case["max_time"]
    if case.get("random_basis_local"):
        kw["random_basis_local"] = ql.RandomBasis[case["random_basis_local"]]
    if case.get("random_basis_remote"):
        kw["random_basis_remote"] = ql.RandomBasis[case["random_basis_remote"]]
    if case.get("basis_local"):
        kw["basis_local"] = EprMeasBasis[case["basis_local"]]
    if case.get("basis_remote"):
        kw["basis_remote"] = EprMeasBasis[case["basis_remote"]]
    if case.get("rotations_local"):
        kw["rotations_local"] = tuple(case["rotations_local"])
    if case.get("rotations_remote"):
        kw["rotations_remote"] = tuple(case["rotations_remote"])
    if case.get("fidelity"):
        # a fidelity constraint on top (the request is wrapped in a retry loop; the link is fast, one attempt suffices): every
        # other parameter reaches the stack as without it
        kw["min_fidelity_all_at_end"] = case["fidelity"]
        kw["max_tries"] = 3
    nontrivial = number >= 2 or len(kw) > 0
    handles = None
    num_arg = number
    if case.get("number_from_host"):
        # the number of pairs is a value the host read from an earlier result (an int whose value lives in __int__, like a Future
        # that has received its value)
        from vf.harness.hostdiff import _HostValue
        num_arg = _HostValue(number)
        ctx.count("pair_counts_given_as_host_values")
    try:
        with pipe.conn as conn:
            if case.get("via_create"):
                # the older single entry point create(tp=...), still accepted
                from netqasm.sdk.build_epr import EPRType
                ctx.count("requests_via_create_wrapper")
                es.create(number=number, tp=EPRType[tp], **kw)
            elif tp == "K" and case.get("with_info"):
                es.create_keep_with_info(number, **kw)      # the same request through the entry point that also returns the info objects
            elif tp == "K":
                handles = es.create_keep(num_arg, **kw)
            elif tp == "M":
                handles = es.create_measure(num_arg, **kw)
            else:
                handles = es.create_rsp(num_arg, **kw)
            conn.flush()
    except (hc.ControllerFault, hc.Deadlock, hc.StepLimit) as e:
        ctx.fail(case, f"create_{tp} {kw}: controller run failed: {e}")
        return ctx.case(case, nontrivial)
    puts = pipe.stack.puts
    if len(puts) != 1:
        ctx.fail(case, f"{len(puts)} requests reached the network stack for one create call")
        return ctx.case(case, nontrivial)
    if handles is not None and len(handles) != number:
        ctx.fail(case, f"create_{tp}({number}, {kw}): {number} pair(s) were requested, the call returned {len(handles)} result handle(s)")
        return ctx.case(case, nontrivial)
    got = puts[0]
    rot_l = tuple(case.get("rotations_local") or (BASIS_ROT[case["basis_local"]] if case.get("basis_local") else (0, 0, 0)))
    rot_r = tuple(case.get("rotations_remote") or (BASIS_ROT[case["basis_remote"]] if case.get("basis_remote") else (0, 0, 0)))
    if tp == "K":
        rot_l = rot_r = (0, 0, 0)
    want = {
        "remote_node_id": NODE_IDS[case["remote"]], "purpose_id": case["socket"], "type": {"K": 0, "M": 1, "R": 2}[tp],
        "number": number,
        "random_basis_local": {None: 0, "NONE": 0, "XZ": 1, "XYZ": 2, "CHSH": 3}[case.get("random_basis_local")] if tp != "K" else 0,
        "random_basis_remote": {None: 0, "NONE": 0, "XZ": 1, "XYZ": 2, "CHSH": 3}[case.get("random_basis_remote")] if tp != "K" else 0,
        "max_time": case.get("max_time", 0),
        "rotation_X_local1": rot_l[0], "rotation_Y_local": rot_l[1], "rotation_X_local2": rot_l[2],
        "rotation_X_remote1": rot_r[0], "rotation_Y_remote": rot_r[1], "rotation_X_remote2": rot_r[2],
        "minimum_fidelity": 0, "priority": 0, "atomic": 0, "consecutive": 0,
        "probability_dist_local1": 0, "probability_dist_local2": 0, "probability_dist_remote1": 0, "probability_dist_remote2": 0,
    }
    if case.get("max_time", 0) != 0:
        want["time_unit"] = {"MICRO_SECONDS": 0, "MILLI_SECONDS": 1, "SECONDS": 2}[case.get("time_unit", "MICRO_SECONDS")]

    def plain(v):
        return v.value if hasattr(v, "value") and not isinstance(v, int) else v
    for f, w in want.items():
        ctx.count("request_fields_compared")
        g = getattr(got, f, "<missing>")
        if plain(g) != w:
            ctx.fail(case, f"create_{tp}({kw}): request field {f} reaches the network stack as {g!r}, the application passed {w}")
            return ctx.case(case, nontrivial)
    # enum-typed fields must be enums (the link-layer conversion reads `.value`)
    for f in ("type", "random_basis_local", "random_basis_remote"):
        if isinstance(getattr(got, f), int):
            ctx.fail(case, f"create_{tp}({kw}): request field {f} reaches the network stack as a bare int {getattr(got, f)!r}")
            return ctx.case(case, nontrivial)
    if tp in ("K", "M"):
        ctx.count("qlink_conversions")
        try:
            q = ql.request_to_qlink_1_0(got)
        except Exception as e:
            ctx.fail(case, f"create_{tp}({kw}): request_to_qlink_1_0 rejects the request: {type(e).__name__}: {e}")
            return ctx.case(case, nontrivial)
        pairs = [("remote_node_id", want["remote_node_id"]), ("purpose_id", want["purpose_id"]), ("number", number),
                 ("max_time", want["max_time"])]
        if tp == "M":
            pairs += [("x_rotation_angle_local_1", rot_l[0]), ("y_rotation_angle_local", rot_l[1]), ("x_rotation_angle_local_2", rot_l[2]),
                      ("x_rotation_angle_remote_1", rot_r[0]), ("y_rotation_angle_remote", rot_r[1]), ("x_rotation_angle_remote_2", rot_r[2]),
                      ("random_basis_local", want["random_basis_local"]), ("random_basis_remote", want["random_basis_remote"])]
        for f, w in pairs:
            g = getattr(q, f)
            if plain(g) != w:
                ctx.fail(case, f"create_{tp}({kw}): qlink-1.0 request carries {f}={g!r}, the application passed {w}")
                return ctx.case(case, nontrivial)
        if type(q).__name__ != {"K": "ReqCreateAndKeep", "M": "ReqMeasureDirectly"}[tp]:
            ctx.fail(case, f"create_{tp}: converted to {type(q).__name__}")
    ctx.case(case, nontrivial)


def _result(ctx, case):
    from netqasm.sdk.epr_socket import EPRSocket
    role, api, number = case["role"], case["api"], case["number"]
    remote = NODE_IDS[case["remote"]]
    # which response type does this call consume?
    if api in ("keep", "keep_with_info", "context"):
        tp = "K"
    elif api == "measure":
        tp = "M"
    else:
        tp = "R"
    gives_qubit = tp == "K" or (tp == "R" and role == "recv")
    fields = K_FIELDS if gives_qubit else M_FIELDS

    def fld(pair, name):
        if name in ("create_id", "sequence_number", "goodness", "goodness_time", "measurement_outcome"):
            return tag(pair, fields, name)
        if name == "measurement_basis":
            return case["bases"][pair]
        return None
    es = EPRSocket(case["remote"], epr_socket_id=case["socket"], remote_epr_socket_id=case["socket"] + 2)
    req = PlannedRequest(role, tp, number, remote=remote, socket=case["socket"], bells=case["bells"], fields=fld)
    link = LinkModel([req], qlink10=bool(case.get("qlink10")))
    pipe = Pipe(epr_sockets=[es], link=link, max_qubits=5, hardware=case.get("hardware", "generic"), node_name=case.get("local", "alice"))
    qubits, infos, mres = None, None, None
    try:
        with pipe.conn as conn:
            if role == "create":
                if api == "context":
                    with es.create_context(number=number, sequential=True) as (q_, pair_):
                        q_.measure()
                    ctx.count("context_requests")
                elif api == "keep":
                    qubits = es.create_keep(number)
                elif api == "keep_with_info":
                    qubits, infos = es.create_keep_with_info(number)
                elif api == "measure":
                    mres = es.create_measure(number)
                else:
                    mres = es.create_rsp(number)
            else:
                if api == "context":
                    with es.recv_context(number=number, sequential=True) as (q_, pair_):
                        q_.measure()
                    ctx.count("context_requests")
                elif api == "keep":
                    qubits = es.recv_keep(number, expect_phi_plus=False)
                elif api == "keep_with_info":
                    qubits, infos = es.recv_keep_with_info(number, expect_phi_plus=False)
                elif api == "measure":
                    mres = es.recv_measure(number, expect_phi_plus=False)
                else:
                    qubits, infos = es.recv_rsp_with_info(number, expect_phi_plus=False)
            conn.flush()
            if api == "context":
                # the block form returns no handles: what can be observed is that the request (create) / the receive registration
                # (recv) is made for THIS socket, i.e. the run completes with every pair delivered and consumed by the block
                for g_ in pipe.stack.puts:
                    if (g_.remote_node_id, g_.purpose_id, g_.number) != (remote, case["socket"], number):
                        ctx.fail(case, f"create_context x{number}: the request reaches the network stack for (node {g_.remote_node_id}, "
                                       f"purpose {g_.purpose_id}, {g_.number} pairs), the socket is (node {remote}, id {case['socket']}, {number} pairs)")
                        return ctx.case(case, True)
                n_meas = sum(1 for (_, _, mn) in pipe.ctrl.executor.pc_trace if mn == "meas")
                if n_meas != number:
                    ctx.fail(case, f"{role}_context x{number}: the block ran for {n_meas} pair(s)")
                return ctx.case(case, number >= 2)
            # ---- read every handle ---------------------------------------------------------------------------
            def expect_field(pair, name):
                if name in ("create_id", "sequence_number", "goodness", "goodness_time", "measurement_outcome"):
                    return tag(pair, fields, name)
                if name == "bell_state":
                    return case["bells"][pair]
                if name == "measurement_basis":
                    return case["bases"][pair]
                if name == "remote_node_id":
                    return remote
                if name == "purpose_id":
                    return case["socket"]
                if name == "directionality_flag":
                    return 0 if role == "create" else 1
                if name == "logical_qubit_id":
                    return req.phys[pair]
                if name == "type":
                    return 0 if gives_qubit else 1
                raise KeyError(name)

            def check(handle_desc, value, pair, name):
                ctx.count("result_handles_read")
                want = expect_field(pair, name)
                v = value.value if hasattr(value, "value") and not isinstance(value, int) else value
                if hasattr(v, "value") and not isinstance(v, int):
                    v = v.value
                if v != want:
                    ctx.fail(case, f"{role} {api} x{number}: {handle_desc} of pair {pair} reads {v!r}; the link-layer response of "
                                   f"pair {pair} carries {name}={want}")
                    return False
                return True
            if qubits is not None:
                for i, q in enumerate(qubits):
                    info = q.entanglement_info
                    for name in K_FIELDS:
                        if not check(f"qubit.entanglement_info.{name}", getattr(info, name), i, name):
                            return ctx.case(case, True)
                    ctx.count("result_handles_read")
                    if q.remote_entangled_node != case["remote"]:
                        ctx.fail(case, f"qubit {i}.remote_entangled_node = {q.remote_entangled_node!r}, expected {case['remote']!r}")
                        return ctx.case(case, True)
            if infos is not None:
                for i, r in enumerate(infos):
                    for hname, fname in (("qubit_id", "logical_qubit_id"), ("remote_node_id", "remote_node_id"),
                                         ("generation_duration", "goodness"), ("raw_bell_state", "bell_state"), ("bell_state", "bell_state")):
                        if not check(f"EprKeepResult.{hname}", getattr(r, hname), i, fname):
                            return ctx.case(case, True)
            if mres is not None:
                for i, r in enumerate(mres):
                    for hname, fname in (("raw_measurement_outcome", "measurement_outcome"), ("remote_node_id", "remote_node_id"),
                                         ("generation_duration", "goodness"), ("raw_bell_state", "bell_state"), ("bell_state", "bell_state"),
                                         ("measurement_outcome", "measurement_outcome")):
                        if not check(f"EprMeasureResult.{hname}", getattr(r, hname), i, fname):
                            return ctx.case(case, True)
    except (hc.ControllerFault, hc.Deadlock, hc.StepLimit) as e:
        ctx.fail(case, f"{role} {api} x{number}: controller run failed: {e}")
        return ctx.case(case, True)
    ctx.case(case, number >= 2)
