"""C02 — wire format follows the fixed 7-byte NetQASM command layout (L1, frozen reference encoder).

Oracle: byte-for-byte equality between the repository's encoder and the struct-based reference
encoder of vf/ref/isa.py (frozen opcode / operand-order table), in both directions.
"""
from __future__ import annotations

from vf.harness import codec
from vf.ref import isa

PID = "C02"
LEVEL = "exploration"
RULE = ("for every flavour x table entry (mnemonic): (a) walking-one / every-register valuations per field position "
        "with pairwise-distinct values in the other fields (a swap of like-typed operands changes the bytes), "
        "(b) random valuations, (c) header sweeps, (d) random whole subroutines (re-encoded after in-place operand updates "
        "and after an append), (e) four threads encoding subroutines of different applications at once (switch interval "
        "1 us). Each case is encoded by the repo "
        "(bytes(Subroutine)) and by the reference encoder and compared byte for byte; the reference bytes are also "
        "decoded by the repo and compared with the case. Non-trivial = at least one instruction with an operand; "
        "distinct = distinct (flavour, header, instruction list).")
ASSUMPTIONS = [
    "the frozen table in vf/ref/isa.py is the published instruction table (core 1-19, 32-41, 100; vanilla 20-31, mov=42; NV rot 27-29, crot 30-31)",
    "classes present in the tree but absent from the table are counted as unreferenced, not judged",
]
SHARDS = {"quick": 1, "thorough": 16}
MIN_COUNTERS = {"byte_comparisons": 1000, "reference_decodes": 1000}


def _distinct_base(kinds, rng):
    """Pairwise-distinct values per kind so that any swap of two like-typed operands is visible."""
    regs = [[b, i] for b in "RCQM" for i in range(1, 16)]
    rng.shuffle(regs)
    imms = rng.sample(range(1, 255), 8)
    ints = rng.sample([0x01020304, 0x11223344, -0x01020305, 0x7A6B5C4D, -0x12345678, 0x0F1E2D3C, 77, -77], 8)
    out = []
    for k in kinds:
        if k == isa.R:
            out.append(regs.pop())
        elif k == isa.I8:
            out.append(imms.pop())
        elif k in (isa.I32, isa.AD):
            out.append(ints.pop())
        elif k == isa.EN:
            out.append([ints.pop(), regs.pop()])
        elif k == isa.SL:
            out.append([ints.pop(), regs.pop(), regs.pop()])
    return out


def _walk_values(kind):
    if kind == isa.R:
        return [[b, i] for b in "RCQM" for i in range(16)]
    if kind == isa.I8:
        return [0, 255] + [1 << b for b in range(8)] + [255 ^ (1 << b) for b in range(8)]
    return [0, -1, 2**31 - 1, -(2**31)] + [1 << b for b in range(31)] + [-(1 << b) - 1 for b in range(31)]


def cases(ctx):
    rng = ctx.rng
    k = 0
    for flav in ("vanilla", "nv", "reids"):
        tree = {c.mnemonic for c in codec.flavour_classes(flav)}
        for m in sorted(tree - set(isa.TABLE[flav])):
            ctx.count("unreferenced_classes")
        for m, (op, kinds) in sorted(isa.TABLE[flav].items()):
            for pos in codec.leaf_positions(kinds) or [None]:
                base = _distinct_base(kinds, rng)
                vals = [base] if pos is None else [codec.set_leaf(base, pos, v) for v in _walk_values(pos[2])]
                for v in vals:
                    k += 1
                    if ctx.mine(k):
                        yield {"kind": "instr", "flavour": flav, "version": [0, 0], "app_id": 0, "instrs": [[m, v]]}
            for _ in range(3 if ctx.quick else 200):
                k += 1
                if ctx.mine(k):
                    yield {"kind": "instr", "flavour": flav, "version": [rng.randrange(256), rng.randrange(256)],
                           "app_id": rng.randrange(65536), "instrs": [[m, codec.rand_values(rng, kinds)]]}
    for flav in ("vanilla", "nv", "reids"):
        for app in [0, 1, 255, 256, 0x1234, 65535] + [1 << b for b in range(16)]:
            for ver in ([0, 0], [1, 2], [255, 0], [0, 255], [0x12, 0x34]):
                k += 1
                if ctx.mine(k):
                    yield {"kind": "header", "flavour": flav, "version": ver, "app_id": app,
                           "instrs": [["set", [["C", 3], 0x01020304]]]}
    # header-only subroutines (no commands) and template operands filled in by instantiate() (the pre-compiled flow)
    for flav in ("vanilla", "nv", "reids"):
        for app in (0, 1, 65535):
            k += 1
            if ctx.mine(k):
                yield {"kind": "sequence", "flavour": flav, "version": [rng.randrange(256), rng.randrange(256)], "app_id": app, "instrs": []}
        for m in sorted(x for x in isa.TABLE[flav] if x.startswith("rot_")):
            for slot in (1, 2):
                for v in (0, 1, 2, 127, 128, 254, 255):
                    k += 1
                    if ctx.mine(k):
                        vals = codec.rand_values(rng, isa.TABLE[flav][m][1])
                        vals[slot] = v
                        yield {"kind": "template", "flavour": flav, "mnemonic": m, "slot": slot, "values": vals, "app_id": rng.randrange(65536)}
            for v in (0, 3, 255):       # numerator and denominator filled from the same template name
                k += 1
                if ctx.mine(k):
                    vals = codec.rand_values(rng, isa.TABLE[flav][m][1])
                    vals[1] = vals[2] = v
                    yield {"kind": "template", "flavour": flav, "mnemonic": m, "slot": 1, "both": True, "values": vals, "app_id": rng.randrange(65536)}
    if ctx.shard == 0:
        for flav in ("vanilla", "nv"):
            yield {"kind": "threaded", "flavour": flav, "threads": 4, "rounds": ctx.n(250, 40000), "version": [1, 0],
                   "seed": rng.randrange(2**31)}
    for _ in range(ctx.n(200, 300000)):
        flav = rng.choice(["vanilla", "nv", "reids"])
        names = sorted(isa.TABLE[flav])
        ins = []
        for _ in range(rng.randrange(1, 30)):
            m = rng.choice(names)
            ins.append([m, codec.rand_values(rng, isa.TABLE[flav][m][1])])
        yield {"kind": "sequence", "flavour": flav, "version": [rng.randrange(256), rng.randrange(256)],
               "app_id": rng.randrange(65536), "instrs": ins}
    # listings as a debug transpilation leaves them in memory: comments between the instructions (they take no bytes), branches to
    # EVERY in-memory position - an instruction, a comment (= the instruction after it), the end
    branches = {"jmp": 0, "bez": 1, "bnz": 1, "beq": 2, "bne": 2, "blt": 2, "bge": 2}
    for _ in range(ctx.n(150, 60000)):
        flav = rng.choice(["vanilla", "nv", "reids"])
        names = sorted(isa.TABLE[flav])
        n = rng.randrange(1, 12)
        layout = [rng.random() < 0.4 for _ in range(n + rng.randrange(0, 8))]      # True = a comment at this in-memory position
        ins = []
        for is_comment in layout:
            if is_comment:
                continue
            m = rng.choice(sorted(branches)) if rng.random() < 0.6 else rng.choice(names)
            v = codec.rand_values(rng, isa.TABLE[flav][m][1])
            if m in branches:
                v[branches[m]] = rng.randrange(0, len(layout) + 1)
            ins.append([m, v])
        yield {"kind": "commented", "flavour": flav, "version": [rng.randrange(256), rng.randrange(256)],
               "app_id": rng.randrange(65536), "instrs": ins, "layout": layout}


def _commented(ctx, case):
    from netqasm.lang.instr.base import DebugInstruction
    from netqasm.lang.subroutine import Subroutine
    flav = case["flavour"]
    fobj = codec.flavour_obj(flav)
    branches = {"jmp": 0, "bez": 1, "bnz": 1, "beq": 2, "bne": 2, "blt": 2, "bge": 2}
    real = iter(case["instrs"])
    mem = []
    before = [0]            # before[t] = instructions (not comments) at in-memory positions < t
    for is_comment in case["layout"]:
        mem.append(DebugInstruction(text="c") if is_comment else codec.mk_instr(fobj, flav, *next(real)))
        before.append(before[-1] + (0 if is_comment else 1))
    if not any(case["layout"]):
        before = list(range(len(case["layout"]) + 1))
    want = []
    for m, v in case["instrs"]:
        v = list(v)
        if m in branches:
            v[branches[m]] = before[v[branches[m]]]
        want.append([m, v])
    sub = Subroutine(instructions=mem, arguments=[], netqasm_version=tuple(case["version"]), app_id=case["app_id"])
    ctx.count("commented_listings_encoded")
    ctx.count("branches_into_commented_listings", sum(1 for m, _ in case["instrs"] if m in branches))
    ref = isa.encode_subroutine(flav, case["version"], case["app_id"], want)
    for attempt in ("first", "second"):
        raw = bytes(sub)
        if raw != ref:
            i = next((i for i in range(len(want)) if raw[4 + 7 * i:11 + 7 * i] != ref[4 + 7 * i:11 + 7 * i]), None)
            ctx.fail(case, f"{flav}: listing with comments at in-memory positions {[i for i, c in enumerate(case['layout']) if c]} ({attempt} encoding): "
                           + (f"instruction {i} {case['instrs'][i]} must be encoded as {want[i]}: repo {raw[4 + 7 * i:11 + 7 * i].hex()} "
                              f"reference {ref[4 + 7 * i:11 + 7 * i].hex()}" if i is not None else f"{len(raw)} bytes, reference {len(ref)}"))
            break
    ctx.case(case, bool(case["instrs"]))


def _threaded(ctx, case):
    """One host thread per application is the normal threaded deployment: several threads encode subroutines (different
    app ids, versions, programs) at the same time; each must get exactly the reference bytes of its own subroutine."""
    import random
    import sys
    import threading
    n, rounds, flav = case["threads"], case["rounds"], case["flavour"]
    errors = []
    names = sorted(isa.TABLE[flav])
    old = sys.getswitchinterval()
    sys.setswitchinterval(1e-6)
    barrier = threading.Barrier(n)

    def worker(t):
        rng = random.Random(case["seed"] * 31 + t)
        ver = [case["version"][0], case["version"][1]] if t % 2 else [t, 7]
        barrier.wait()
        for r in range(rounds):
            ins = [[m, codec.rand_values(rng, isa.TABLE[flav][m][1])] for m in (rng.choice(names) for _ in range(rng.randrange(1, 25)))]
            app = 257 * (t + 1) + (r % 7)
            raw = bytes(codec.mk_subroutine(flav, ver, app, ins))
            ref = isa.encode_subroutine(flav, ver, app, ins)
            if raw != ref:
                where = f"header {raw[:4].hex()} instead of {ref[:4].hex()}" if raw[:4] != ref[:4] else "an instruction"
                errors.append(f"thread {t} (app {app}, version {ver}) round {r}: {where}")
                return
    try:
        ths = [threading.Thread(target=worker, args=(t,)) for t in range(n)]
        for th in ths:
            th.start()
        for th in ths:
            th.join(120)
    finally:
        sys.setswitchinterval(old)
    ctx.count("threaded_encodings", n * rounds)
    if errors:
        ctx.fail(case, f"{flav}: subroutines of different applications encoded concurrently pick up each other's bytes: " + errors[0])
    ctx.case(case, True)


def _template(ctx, case):
    """A rotation whose numerator or denominator is a template: instantiate(app, {name: v}) must give exactly the reference bytes
    of the rotation with v in that slot (v = 0 included)."""
    from netqasm.lang.operand import Template
    from netqasm.lang.subroutine import Subroutine
    flav, m, vals, slot = case["flavour"], case["mnemonic"], case["values"], case["slot"]
    fobj = codec.flavour_obj(flav)
    kinds = isa.TABLE[flav][m][1]
    ops = [codec.mk_operand(kd, v) for kd, v in zip(kinds, vals)]
    ops[slot] = Template("t")
    if case.get("both"):
        ops[2] = Template("t")
    try:
        sub = Subroutine(netqasm_version=(1, 0), app_id=None, instructions=[fobj.get_instr_by_name(m).from_operands(ops)])
    except Exception:
        ctx.count("template_slot_not_supported")
        return ctx.case(case, False)
    ctx.count("template_instantiations")
    try:
        sub.instantiate(case["app_id"], {"t": vals[slot]})
        raw = bytes(sub)
    except Exception as e:
        ctx.fail(case, f"{flav}: {m} with a template in operand {slot} instantiated with {vals[slot]} cannot be encoded: {type(e).__name__}: {str(e)[:120]}")
        return ctx.case(case, True)
    ref = isa.encode_subroutine(flav, [1, 0], case["app_id"], [[m, vals]])
    ctx.count("byte_comparisons")
    if raw != ref:
        ctx.fail(case, f"{flav}: {m} {vals} via template instantiation encodes as {raw[4:].hex()} (header {raw[:4].hex()}), reference {ref[4:].hex()} ({ref[:4].hex()})")
    ctx.case(case, True)


def run_case(ctx, case):
    from netqasm.lang.parsing import deserialize
    if case["kind"] == "threaded":
        return _threaded(ctx, case)
    if case["kind"] == "commented":
        return _commented(ctx, case)
    if case["kind"] == "template":
        return _template(ctx, case)
    flav = case["flavour"]
    fobj = codec.flavour_obj(flav)
    ref = isa.encode_subroutine(flav, case["version"], case["app_id"], case["instrs"])
    nontrivial = any(v for _, v in case["instrs"])
    # direction 1: repo encodes, compare with reference bytes
    try:
        sub = codec.mk_subroutine(flav, case["version"], case["app_id"], case["instrs"])
    except KeyError as e:
        ctx.fail(case, f"{flav}: table mnemonic {e} no longer resolves in the flavour", key=None)
        ctx.case(case, nontrivial)
        return
    raw = bytes(sub)
    ctx.count("byte_comparisons")
    if raw != ref:
        # locate first differing instruction for the witness
        where = "header" if raw[:4] != ref[:4] else None
        if where is None:
            for i in range(len(case["instrs"])):
                a, b = raw[4 + 7 * i:11 + 7 * i], ref[4 + 7 * i:11 + 7 * i]
                if a != b:
                    where = f"instr {i} {case['instrs'][i]}: repo {a.hex()} reference {b.hex()}"
                    break
        if where == "header":
            where = f"header: repo {raw[:4].hex()} reference {ref[:4].hex()}"
        ctx.fail(case, f"{flav}: encoded bytes differ from the reference layout at {where or 'length'}")
        ctx.case(case, nontrivial)
        return
    # the bytes of the parts: every operand's own bytes() / its ctypes structure are the bytes it contributes to its command,
    # and an instruction's serialize() / bytes() are its 7 bytes of the subroutine
    for i, ins_ in enumerate(sub.instructions):
        mine_ = raw[4 + 7 * i:11 + 7 * i]
        ctx.count("part_byte_comparisons")
        if ins_.serialize() != mine_:
            ctx.fail(case, f"{flav}: instruction {i} {case['instrs'][i]}: serialize() gives {ins_.serialize().hex()}, in the subroutine it is {mine_.hex()}")
            return ctx.case(case, nontrivial)
        for o in ins_.operands:
            if hasattr(o, "cstruct") and bytes(o) != bytes(o.cstruct):
                ctx.fail(case, f"{flav}: operand {o} of instruction {i}: bytes(operand) = {bytes(o).hex()} but its structure in the command is "
                               f"{bytes(o.cstruct).hex()}")
                return ctx.case(case, nontrivial)
            if hasattr(o, "cstruct") and bytes(o.cstruct) not in mine_:
                ctx.fail(case, f"{flav}: operand {o} of instruction {i}: its bytes {bytes(o.cstruct).hex()} do not occur in the command {mine_.hex()}")
                return ctx.case(case, nontrivial)
    # direction 2: reference bytes decoded by the repo
    ctx.count("reference_decodes")
    dec = deserialize(ref, flavour=fobj)
    got = [codec.describe_instr(i) for i in dec.instructions]
    want = [[m, v] for m, v in case["instrs"]]
    if got != want or tuple(dec.netqasm_version) != tuple(case["version"]) or dec.app_id != case["app_id"]:
        first = next((f"{w} read as {g}" for g, w in zip(got, want) if g != w), "header/length")
        ctx.fail(case, f"{flav}: reference bytes are decoded differently by the repo: {first}")
    elif case["kind"] == "instr" and nontrivial and ctx.evaluations % 2 == 0:
        # a DECODED subroutine that is addressed to another application and sent on (a controller forwarding a program):
        # its bytes carry the new application, everything else as received
        app2 = case["app_id"] ^ 0x4004
        dec.instantiate(app2, {})
        ctx.count("decoded_then_readdressed_reencodings")
        if bytes(dec) != isa.encode_subroutine(flav, case["version"], app2, case["instrs"]):
            ctx.fail(case, f"{flav}: reference bytes decoded, addressed to app {app2} via instantiate and encoded again: the bytes start "
                           f"{bytes(dec)[:4].hex()}, the layout says {isa.encode_subroutine(flav, case['version'], app2, case['instrs'])[:4].hex()}")
        else:
            dec.instantiate(0, {})
            if bytes(dec) != isa.encode_subroutine(flav, case["version"], 0, case["instrs"]):
                ctx.fail(case, f"{flav}: reference bytes decoded, addressed to app {app2} and then to app 0 via instantiate: the bytes start "
                               f"{bytes(dec)[:4].hex()}, the layout says {isa.encode_subroutine(flav, case['version'], 0, case['instrs'])[:4].hex()}")
    elif case["kind"] in ("header", "instr") or not case["instrs"]:
        # the same (pre-compiled) Subroutine object is encoded, addressed to another application (instantiate() / the app_id
        # setter), and encoded again: the header carries the application it is addressed to *now*
        # (application 0 is an application like any other: also re-addressed TO it from a non-zero one, both ways)
        for how, app2 in (("instantiate", case["app_id"] ^ 0x0101), ("setter", case["app_id"] ^ 0x8002), ("instantiate", 0),
                          ("setter", 0xFFFF), ("setter", 0), ("instantiate", 1)):
            if how == "instantiate":
                sub.instantiate(app2, {})
            else:
                sub.app_id = app2
            ctx.count("reencodings_after_readdressing")
            ref2 = isa.encode_subroutine(flav, case["version"], app2, case["instrs"])
            raw2 = bytes(sub)
            if raw2 != ref2:
                ctx.fail(case, f"{flav}: subroutine encoded for app {case['app_id']}, then addressed to app {app2} via {how}: "
                               f"the bytes start {raw2[:4].hex()}, the layout says {ref2[:4].hex()}")
                break
    elif case["kind"] == "sequence" and case["instrs"]:
        # the wire bytes of a Subroutine object are those of its *current* content: update operands / the list in place
        # after the first encoding and compare with the reference encoding of the updated program
        rng = ctx.rng
        instrs2 = [[m, codec.rand_values(rng, isa.TABLE[flav][m][1])] for m, _ in case["instrs"]]
        for j_, (obj, (m, v)) in enumerate(zip(sub.instructions, instrs2)):
            try:
                codec.edit_in_place(obj, codec.mk_instr(fobj, flav, m, v), named=j_ % 2 == 0, nested=j_ % 4 == 1)
            except AssertionError as e:
                ctx.fail(case, f"{flav}: instruction {j_} ({m}): a named operand accessor does not write the field it reads: {e}")
                return ctx.case(case, nontrivial)
        ctx.count("reencodings_after_update")
        # same instruction count, operands updated in place (what the NV transpiler and template filling do)
        ref2 = isa.encode_subroutine(flav, case["version"], case["app_id"], instrs2)
        if bytes(sub) != ref2:
            ctx.fail(case, f"{flav}: after operands were updated in place, bytes(Subroutine) is not the reference encoding of "
                           f"the updated program (stale encoding)")
        extra = rng.choice(sorted(isa.TABLE[flav]))
        ev = codec.rand_values(rng, isa.TABLE[flav][extra][1])
        sub.instructions.append(codec.mk_instr(fobj, flav, extra, ev))
        ref3 = isa.encode_subroutine(flav, case["version"], case["app_id"], instrs2 + [[extra, ev]])
        if bytes(sub) != ref3:
            ctx.fail(case, f"{flav}: after an instruction was appended, bytes(Subroutine) is not the "
                           f"reference encoding of the updated program (stale encoding)")
    ctx.case(case, nontrivial)
