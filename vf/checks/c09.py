"""C09 — SDK and controller agree on which virtual qubits exist (L3 pipeline, random histories)."""
from __future__ import annotations

from vf.harness import controller as hc
from vf.harness.link import LinkModel, PlannedRequest
from vf.harness.pipeline import Pipe

PID = "C09"
LEVEL = "exploration"
RULE = ("random histories (up to 14 operations) over Qubit(), single/two-qubit gates, in-place and destructive measurement, "
        "free(), reset(), EPR create/recv keep (plain, with_info), sequential keep with a post routine, "
        "create_context/recv_context, and flush; qubit budgets 1..5; generic and NV hardware configs, with and without "
        "the NV transpiler; the generator counts live handles itself and never exceeds the budget (budget-1 on NV). "
        "Oracle after every flush: no controller fault, and {q.qubit_id for q in connection.active_qubits} == "
        "{v : unit_module[v] is not None}."
        ' A quarter of the histories follow an earlier host program on the same controller that closed while holding 0..budget qubits (same application id and budget). '
        " A program that uses a handle it has given back (gate, rotation, reset, either side of a two-qubit gate): the SDK must refuse on the spot and emit nothing. Keep requests whose every allowed attempt misses the fidelity bound (known finding, judged up to the next flush). "
        "Non-trivial = the history reused a virtual ID (allocation after a release) "
        "or contained an EPR request, and has >= 2 flushes; distinct = distinct history description.")
ASSUMPTIONS = ["SDK-side refusals at build time (ValueError / AssertionError before anything is emitted) are counted, not judged: the property speaks about emitted subroutines",
               "known finding epr-context:placeholder-qubits-stay-active: after a sequential keep with post routine or a create/recv_context block the SDK keeps the request's handles active; such a history is judged up to and including that flush and then ends",
               "link-layer responses are delivered as late as possible"]
SHARDS = {"quick": 4, "thorough": 16}
MIN_COUNTERS = {"flushes_compared": 1000, "id_reuses": 100, "epr_requests": 100}
MIN_NONTRIVIAL = {"quick": 150, "thorough": 2000}
WALL_BUDGET = {"quick": 200, "thorough": 2400}
KF = "epr-context:placeholder-qubits-stay-active"
KF_NV = "epr-context:nv-multi-pair-target-preallocated"
KF_ELECTRON = "nv-transpile:carbon-carbon-gate-needs-allocated-electron"
KF_RETRY = "epr-retry:nv-relocation-inside-retry-loop"
KF_GIVE_UP = "epr-retry:last-attempt-cleaned-up-handles-stay-active"


_FORGOTTEN = set()


def gen_history(rng, budget, hw):
    limit = budget - 1 if hw == "nv" else budget
    ops = []
    live = []            # handle names
    nq = 0
    n_flush = 0
    dead = []
    for _ in range(rng.randrange(4, 15)):
        r = rng.random()
        free_slots = limit - len(live)
        for o in ops[-1:]:
            if o["op"] == "free" or (o["op"] == "measure" and not o["inplace"]):
                dead.append(o["q"])
        if dead and rng.random() < 0.12:
            # the program uses a handle it has given back (a slip): the SDK must refuse on the spot, nothing may be emitted
            how = rng.choice(["gate", "rot", "reset", "cnot_c", "cnot_t"] if live else ["gate", "rot", "reset"])
            ops.append({"op": "dead", "q": rng.choice(dead), "how": how, "other": rng.choice(live) if live else None})
            continue
        if r < 0.22 and free_slots >= 1:
            nq += 1
            live.append(f"q{nq}")
            ops.append({"op": "new", "q": f"q{nq}"})
        elif r < 0.34 and live:
            ops.append({"op": "gate", "g": rng.choice(["X", "H", "Z"]), "q": rng.choice(live)})
        elif r < 0.40 and len(live) >= 2:
            a, b = rng.sample(live, 2)
            ops.append({"op": "cnot", "c": a, "t": b})
        elif r < 0.52 and live:
            q = rng.choice(live)
            live.remove(q)
            ops.append({"op": "measure", "q": q, "inplace": False, "flag": rng.choice(["bool", "bool", "int", "np"])})
        elif r < 0.57 and live:
            ops.append({"op": "measure", "q": rng.choice(live), "inplace": True, "flag": rng.choice(["bool", "bool", "int", "np"])})
        elif r < 0.66 and live:
            q = rng.choice(live)
            live.remove(q)
            ops.append({"op": "free", "q": q})
        elif r < 0.69 and live:
            ops.append({"op": "reset", "q": rng.choice(live)})
        elif r < 0.71 and live and hw == "generic":
            # the host drops its last reference to a live handle (a helper that prepares a qubit and returns nothing, a name
            # that is re-bound): the qubit stays allocated and its ID stays taken until the connection closes
            q = rng.choice(live)
            live.remove(q)
            limit -= 1
            ops.append({"op": "forget", "q": q})
        elif r < 0.80 and free_slots >= 1:
            n = rng.randrange(1, free_slots + 1)
            names = []
            for _i in range(n):
                nq += 1
                names.append(f"q{nq}")
            live += names
            ops.append({"op": "epr_keep", "role": rng.choice(["create", "recv"]), "n": n, "names": names,
                        "with_info": rng.random() < 0.3})
        elif r < 0.815 and free_slots >= 1:
            # keep request with a fidelity constraint: the SDK wraps it in a retry loop that frees the qubits between attempts
            n = rng.randrange(1, free_slots + 1)
            names = []
            for _i in range(n):
                nq += 1
                names.append(f"q{nq}")
            live += names
            ops.append({"op": "epr_retry", "role": rng.choice(["create", "recv"]), "n": n, "names": names,
                        "retries": rng.choice([0, 1, 1, 2])})
            if rng.random() < 0.12:
                # every allowed attempt misses the bound: the request gives up (known finding; judged up to the next flush)
                ops[-1]["exhausted"] = True
                ops.append({"op": "flush"})
                return ops
        elif r < 0.825 and free_slots >= 1:
            # one pair, sequential=True, no post routine: legal, returns an ordinary handle
            nq += 1
            live.append(f"q{nq}")
            ops.append({"op": "epr_keep", "role": rng.choice(["create", "recv"]), "n": 1, "names": [f"q{nq}"], "with_info": False,
                        "sequential": True})
        elif r < 0.84 and free_slots >= 1:
            ops.append({"op": "epr_seq", "role": rng.choice(["create", "recv"]), "n": rng.randrange(1, 5)})
            tail = rng.random()
            if hw == "generic" and live and tail < 0.6:
                # ... and in the SAME subroutine a qubit is given back and a new one made: while the request's handles (which all
                # carry one and the same id) are in the list of active qubits, the new qubit still gets an id the controller has free
                q = rng.choice(live)
                live.remove(q)
                ops.append({"op": "free", "q": q} if tail < 0.3 else {"op": "measure", "q": q, "inplace": False, "flag": "bool"})
                nq += 1
                ops.append({"op": "new", "q": f"q{nq}"})
            ops.append({"op": "flush"})
            return ops       # judged up to this flush (known finding afterwards)
        elif r < 0.88 and free_slots >= 1:
            # a non-sequential context generates all pairs concurrently (needs n free IDs); a sequential one needs one
            seq = rng.random() < 0.5
            n = rng.randrange(1, 5) if seq else rng.randrange(1, free_slots + 1)
            ops.append({"op": "epr_context", "role": rng.choice(["create", "recv"]), "n": n, "sequential": seq})
            ops.append({"op": "flush"})
            return ops
        else:
            ops.append({"op": "flush"})
            n_flush += 1
    ops.append({"op": "flush"})
    return ops


def cases(ctx):
    rng = ctx.rng
    # the documented witnesses first
    if ctx.shard == 0:
        yield {"kind": "history", "budget": 2, "hardware": "generic", "transpile": False,
               "ops": [{"op": "new", "q": "a"}, {"op": "free", "q": "a"}, {"op": "new", "q": "b"}, {"op": "free", "q": "b"},
                       {"op": "new", "q": "c"}, {"op": "free", "q": "c"}, {"op": "flush"}]}
        yield {"kind": "history", "budget": 3, "hardware": "nv", "transpile": True,
               "ops": [{"op": "new", "q": "a"}, {"op": "flush"}, {"op": "new", "q": "b"}, {"op": "measure", "q": "b", "inplace": False},
                       {"op": "flush"}]}
        # a qubit at id 0, a sequential request next to it (its handles share id 1), the qubit given back, a new one: id 0 again
        for role in ("create", "recv"):
            for npairs in (2, 3):
                yield {"kind": "history", "budget": 2, "hardware": "generic", "transpile": False,
                       "ops": [{"op": "new", "q": "a"}, {"op": "epr_seq", "role": role, "n": npairs},
                               {"op": "measure", "q": "a", "inplace": False, "flag": "bool"}, {"op": "new", "q": "b"}, {"op": "flush"}]}
        # a fidelity-constrained request whose pairs get NON-consecutive ids (an id in between is held by another handle), retried
        for role in ("create", "recv"):
            for retries in (1, 2):
                yield {"kind": "history", "budget": 5, "hardware": "generic", "transpile": False,
                       "ops": [{"op": "new", "q": "a"}, {"op": "new", "q": "b"}, {"op": "new", "q": "c"}, {"op": "free", "q": "a"},
                               {"op": "epr_retry", "role": role, "n": 2, "names": ["p0", "p1"], "retries": retries}, {"op": "flush"},
                               {"op": "gate", "g": "X", "q": "b"}, {"op": "gate", "g": "H", "q": "c"}, {"op": "cnot", "c": "p0", "t": "p1"},
                               {"op": "flush"}, {"op": "measure", "q": "b", "inplace": False}, {"op": "free", "q": "p1"}, {"op": "flush"}]}
                yield {"kind": "history", "budget": 5, "hardware": "generic", "transpile": False,
                       "ops": [{"op": "new", "q": "a"}, {"op": "new", "q": "b"}, {"op": "new", "q": "c"}, {"op": "new", "q": "d"},
                               {"op": "free", "q": "a"}, {"op": "free", "q": "c"},
                               {"op": "epr_retry", "role": role, "n": 3, "names": ["p0", "p1", "p2"], "retries": retries}, {"op": "flush"},
                               {"op": "gate", "g": "X", "q": "b"}, {"op": "gate", "g": "H", "q": "d"}, {"op": "flush"}]}
    for _ in range(ctx.n(120, 10000)):
        yield {"kind": "two-apps", "role": rng.choice(["recv", "create"]), "pairs": rng.choice([1, 2]), "a_local": rng.choice([0, 1, 2]),
               "b_ops": rng.randrange(1, 8), "seed": rng.randrange(2**31)}
    for _ in range(ctx.n(1600, 200000)):
        budget = rng.choice([1, 2, 3, 4, 5])
        hw = rng.choice(["generic", "nv"])
        if hw == "nv" and budget == 1:
            budget = 2
        case = {"kind": "history", "budget": budget, "hardware": hw, "transpile": hw == "nv" and rng.random() < 0.6,
                "ops": gen_history(rng, budget, hw)}
        if rng.random() < 0.25:
            case["prelude"] = rng.randrange(0, budget + 1)
        if rng.random() < 0.6:
            case["bell_seed"] = rng.randrange(2**31)
        yield case


class _Refused(Exception):
    pass


def _two_apps(ctx, case):
    """Two applications of one host on one controller: while A's subroutine is suspended waiting for its pairs, B allocates,
    measures and frees qubits; afterwards each connection's active set must equal its own unit module."""
    import random
    from netqasm.sdk.epr_socket import EPRSocket
    from netqasm.sdk.qubit import FutureQubit, Qubit
    r = random.Random(case["seed"])
    na = case["pairs"]
    es = EPRSocket("bob")
    link = LinkModel([PlannedRequest(case["role"], "K", na, bells=[r.randrange(4) for _ in range(na)])], partners=False)
    pipe = Pipe(epr_sockets=[es], link=link, max_qubits=4, hardware="generic", script=[0, 1, 1, 0] * 8)
    ca = pipe.conn
    cb = pipe.open(max_qubits=3)
    b_qubits = []
    done = {"b": False}
    inner = ca._on_event

    def b_runs():
        for _ in range(case["b_ops"]):
            k = r.choice(["new", "new", "measure", "free", "gate"])
            if k == "new" and len(b_qubits) < 3:
                b_qubits.append(Qubit(cb))
            elif k == "measure" and b_qubits:
                b_qubits.pop(r.randrange(len(b_qubits))).measure()
            elif k == "free" and b_qubits:
                b_qubits.pop(r.randrange(len(b_qubits))).free()
            elif k == "gate" and b_qubits:
                r.choice(b_qubits).H()
            if r.random() < 0.5:
                cb.flush()
        cb.flush()

    def on_event(ev):
        if ev[0] == "wait" and not done["b"]:
            done["b"] = True
            ctx.count("subroutines_interleaved_with_another_application")
            b_runs()
        inner(ev)
    ca._on_event = on_event
    try:
        a_local = [Qubit(ca) for _ in range(case["a_local"])]
        qs = (es.recv_keep if case["role"] == "recv" else es.create_keep)(na)
        ca.flush()
        if not done["b"]:
            b_runs()
        for conn, mine, who in ((ca, a_local + list(qs), "A"), (cb, b_qubits, "B")):
            um = pipe.ex._qubit_unit_modules.get(conn.app_id) or []
            ctrl = {v for v, p_ in enumerate(um) if p_ is not None}
            sdk = {q.qubit_id for q in conn.active_qubits if not isinstance(q, FutureQubit)}
            ctx.count("flushes_compared")
            if sdk != ctrl:
                ctx.fail(case, f"application {who} (app id {conn.app_id}): connection.active_qubits IDs {sorted(sdk)} but the controller has virtual "
                               f"qubits {sorted(ctrl)} allocated for it (its subroutine was suspended while another application ran)")
                return ctx.case(case, True)
        ca.close()
        cb.close()
    except (hc.ControllerFault, hc.Deadlock, hc.StepLimit) as e:
        ctx.fail(case, f"two applications on one controller (A waits for {na} pair(s) while B runs {case['b_ops']} operations): {type(e).__name__}: {e}")
    ctx.case(case, True)


def run_case(ctx, case):
    from netqasm.sdk.epr_socket import EPRSocket
    from netqasm.sdk.qubit import FutureQubit, Qubit
    if case["kind"] == "two-apps":
        return _two_apps(ctx, case)
    ops = case["ops"]
    plan = []
    import random as _random
    brng = _random.Random(case["bell_seed"]) if case.get("bell_seed") is not None else None

    def bells(n):
        # the link layer reports whichever Bell state was generated; the SDK corrects on the receiving side
        return [brng.randrange(4) for _ in range(n)] if brng is not None else None
    for o in ops:
        if o["op"] in ("epr_keep", "epr_seq", "epr_context"):
            plan.append(PlannedRequest(o["role"], "K", o["n"], bells=bells(o["n"])))
        elif o["op"] == "epr_retry":
            for attempt in range(o["retries"] + 1):
                slow = attempt < o["retries"] or bool(o.get("exhausted"))
                plan.append(PlannedRequest(o["role"], "K", o["n"], bells=bells(o["n"]),
                                           fields=(lambda k, name, slow=slow: (60000 if slow else 100) if name == "goodness" else None)))
    es = EPRSocket("bob")
    link = LinkModel(plan, partners=False)
    pipe = Pipe(epr_sockets=[es], link=link, max_qubits=case["budget"], hardware=case["hardware"],
                transpile=case["transpile"], script=[0, 1, 1, 0, 1, 0, 0, 1] * 4)
    ex = pipe.ex
    app = pipe.app_id
    conn = pipe.conn
    if case.get("prelude") is not None:
        # an earlier host program on the same long-lived controller: it closed while still holding `prelude` qubits; the program
        # under test is the next one and gets the same application id and budget
        try:
            for _ in range(case["prelude"]):
                Qubit(conn)
            conn.close()
        except Exception:
            ctx.count("discarded_prelude")
            return ctx.case(case, False)
        es = EPRSocket("bob")
        conn = pipe.open(epr_sockets=[es])
        app = conn.app_id
        ctx.count("histories_after_an_earlier_program")
    handles = {}
    _FORGOTTEN.clear()
    leaky = []            # handles created by sequential / context requests (known to stay active)
    n_meas_ops = 0
    given_up = []         # handles of a request whose every attempt missed the fidelity bound
    released_ids = set()
    reuse = 0
    n_flush = 0
    had_epr = bool(plan)
    had_leaky = False
    last_epr = None
    relocation_in_retry_loop = False
    try:
        for o in ops:
            k = o["op"]
            try:
                if k == "new":
                    q = Qubit(conn)
                    if q.qubit_id in released_ids:
                        reuse += 1
                        ctx.count("id_reuses")
                    handles[o["q"]] = q
                elif k == "gate":
                    getattr(handles[o["q"]], o["g"])()
                elif k == "cnot":
                    handles[o["c"]].cnot(handles[o["t"]])
                elif k == "measure":
                    q = handles[o["q"]]
                    qid = q.qubit_id
                    # (the keep-or-release flag as a program has it: a bool, the integer 0 / 1, an element of a numpy mask)
                    flag = o["inplace"]
                    if o.get("flag") == "int":
                        flag = int(flag)
                    elif o.get("flag") == "np":
                        import numpy as _np
                        flag = _np.bool_(flag)
                    n_meas_ops += 1
                    if n_meas_ops % 3 == 0:
                        # the outcome goes where the caller says: an entry of its own array, or a register handle (`future=`)
                        if n_meas_ops % 2 == 0:
                            fut = conn.new_array(1).get_future_index(0)
                        else:
                            from netqasm.sdk.futures import RegFuture
                            fut = RegFuture(connection=conn)
                        ctx.count("measurements_into_a_caller_provided_future")
                        q.measure(future=fut, inplace=flag)
                    else:
                        q.measure(inplace=flag)
                    if not o["inplace"]:
                        released_ids.add(qid)
                elif k == "free":
                    released_ids.add(handles[o["q"]].qubit_id)
                    handles[o["q"]].free()
                elif k == "reset":
                    handles[o["q"]].reset()
                elif k == "forget":
                    import gc
                    _FORGOTTEN.add(handles[o["q"]].qubit_id)
                    del handles[o["q"]]
                    gc.collect()
                    ctx.count("live_handles_dropped_by_the_host")
                elif k == "dead":
                    from netqasm.sdk.qubit import QubitNotActiveError
                    h = handles[o["q"]]
                    pending = len(conn.builder._pending_commands)
                    ctx.count("uses_of_a_returned_handle")
                    try:
                        if o["how"] == "gate":
                            h.X()
                        elif o["how"] == "rot":
                            h.rot_Z(n=1, d=1)
                        elif o["how"] == "reset":
                            h.reset()
                        elif o["how"] == "cnot_c":
                            h.cnot(handles[o["other"]])
                        else:
                            handles[o["other"]].cphase(h)
                        refused = False
                    except QubitNotActiveError:
                        refused = True
                    if not refused or len(conn.builder._pending_commands) != pending:
                        ctx.fail(case, f"the handle {o['q']} (virtual id {h.qubit_id}) was measured destructively / freed, yet the SDK accepted "
                                       f"a {o['how']} through it: the emitted instruction addresses an id that is unallocated or belongs "
                                       f"to a newer handle")
                        return ctx.case(case, True)
                elif k == "epr_keep":
                    ctx.count("epr_requests")
                    kw = {"sequential": True} if o.get("sequential") else {}
                    if o["role"] == "create":
                        qs = es.create_keep_with_info(o["n"])[0] if o["with_info"] else es.create_keep(o["n"], **kw)
                    else:
                        qs = es.recv_keep_with_info(o["n"])[0] if o["with_info"] else es.recv_keep(o["n"], **kw)
                    for name, q in zip(o["names"], qs):
                        handles[name] = q
                elif k == "epr_retry":
                    ctx.count("epr_requests")
                    ctx.count("epr_retry_requests")
                    if case["hardware"] == "nv" and o["retries"] >= 1 and any(
                            (not isinstance(q, FutureQubit)) and q.qubit_id == 0 for q in conn.active_qubits):
                        relocation_in_retry_loop = True
                    fn = es.create_keep if o["role"] == "create" else es.recv_keep
                    qs = fn(o["n"], min_fidelity_all_at_end=80, max_tries=o["retries"] + (1 if o.get("exhausted") else 2))
                    for name, q in zip(o["names"], qs):
                        handles[name] = q
                    if o.get("exhausted"):
                        ctx.count("epr_retry_requests_that_give_up")
                        given_up.extend(qs)
                elif k == "epr_seq":
                    ctx.count("epr_requests")
                    had_leaky = True
                    last_epr = o

                    def post(c, q, pair):
                        q.measure()
                    qs = (es.create_keep if o["role"] == "create" else es.recv_keep)(o["n"], post_routine=post, sequential=True)
                    leaky += list(qs)
                elif k == "epr_context":
                    ctx.count("epr_requests")
                    had_leaky = True
                    last_epr = o
                    cm = (es.create_context if o["role"] == "create" else es.recv_context)(number=o["n"], sequential=bool(o.get("sequential")))
                    with cm as (q, pair):
                        q.measure()
                        leaky.append(q)
                elif k == "flush":
                    conn.flush()
                    n_flush += 1
                    ctx.count("flushes_compared")
                    if not _compare(ctx, case, conn, ex, app, leaky, FutureQubit, handles, had_leaky, given_up):
                        return ctx.case(case, False)
            except (ValueError, AssertionError, UnboundLocalError) as e:
                if k == "flush":
                    raise
                if isinstance(e, UnboundLocalError) and not isinstance(e.__context__, (AssertionError, ValueError)):
                    raise
                ctx.count("sdk_build_time_refusals")
                ctx.count("sdk_build_time_refusals_" + case["hardware"])
                raise _Refused()
        conn.close()
    except _Refused:
        return ctx.case(case, False)
    except hc.ControllerFault as cf:
        key = KF_ELECTRON if _carbon_carbon_without_electron(cf, case, conn) else None
        if key is None and relocation_in_retry_loop and "is already allocated" in str(cf.exc):
            # known mechanism: on NV a qubit sitting on ID 0 is moved away when an EPR request is built; for a request with a
            # fidelity constraint that move is emitted inside the retry loop and executed again by every retry
            key = KF_RETRY
        ctx.fail(case, f"controller fault while executing an SDK-emitted subroutine (budget {case['budget']}, {case['hardware']}"
                       f"{', transpiled' if case['transpile'] else ''}): {cf}", key=key)
        return ctx.case(case, True)
    except (hc.Deadlock, hc.StepLimit) as e:
        key = None
        if (isinstance(e, hc.Deadlock) and case["hardware"] == "nv" and last_epr is not None and last_epr["op"] == "epr_context"
                and last_epr["n"] >= 2 and not last_epr.get("sequential") and len(ex._pending_epr_responses) >= 1 and link.plan[-1].delivered >= 1):
            # same mechanism as C10's known finding: on NV the context pre-allocates the memory qubits as pair targets
            key = KF_NV
        ctx.fail(case, f"SDK-emitted subroutine does not complete: {type(e).__name__}: {e}", key=key)
        return ctx.case(case, True)
    ctx.case(case, bool((reuse or had_epr) and n_flush >= 2))


def _carbon_carbon_without_electron(cf, case, conn):
    """C08's known mechanism seen from here: the transpiled expansion of a carbon-carbon CNOT swaps through virtual qubit 0
    while the host holds no qubit on ID 0."""
    import re
    from vf.harness.l2 import fault_line
    if not (case["hardware"] == "nv" and case["transpile"]):
        return False
    if type(cf.exc).__name__ != "NotAllocatedError" or not re.search(r"address 0 was not allocated", str(cf.exc)):
        return False
    line = fault_line(cf.exc)
    ins = conn.subroutines[-1].instructions if conn.subroutines else []
    if line is None or line >= len(ins) or ins[line].mnemonic not in ("crot_x", "crot_y", "rot_x", "rot_y", "rot_z"):
        return False
    from netqasm.lang.operand import Register
    regs = [o for o in ins[line].operands if isinstance(o, Register)]
    for r in regs:
        for j in range(line - 1, -1, -1):
            if ins[j].mnemonic == "set" and ins[j].reg == r:
                if ins[j].imm.value == 0:
                    return any(o["op"] == "cnot" for o in case["ops"])
                break
    return False


def _compare(ctx, case, conn, ex, app, leaky, FutureQubit, handles, had_leaky_request, given_up=()):
    um = ex._qubit_unit_modules.get(app) or []
    ctrl = {v for v, p in enumerate(um) if p is not None}
    active = list(conn.active_qubits)
    mine = {id(h) for h in handles.values()}
    # (handles the host dropped while their qubit was live still belong to the application: known by their id)
    mine |= {id(q) for q in active if not isinstance(q, FutureQubit) and q.qubit_id in _FORGOTTEN}
    # handles the application does not own: FutureQubit placeholders, the handles a sequential request returned after its
    # post routine consumed the qubits, and the SDK-internal per-pair handles of a context request
    placeholders = [q for q in active if isinstance(q, FutureQubit) or id(q) not in mine]
    sdk = set()
    for q in active:
        if isinstance(q, FutureQubit):
            continue
        sdk.add(q.qubit_id)
    if sdk == ctrl and not placeholders:
        return True
    # known mechanism: exactly the handles of a sequential / context request are still active although the controller
    # released their qubits; everything else must agree
    regular = {q.qubit_id for q in active if not isinstance(q, FutureQubit) and id(q) in mine}
    if placeholders and regular == ctrl and had_leaky_request:
        ctx.fail(case, f"after flush: connection.active_qubits still lists {len(placeholders)} handle(s) of a sequential/context EPR "
                       f"request; controller allocated set {sorted(ctrl)}", key=KF)
        return False
    lost = {q.qubit_id for q in given_up if q in active}
    if lost and not placeholders and sdk - lost == ctrl and not (lost & ctrl):
        # known mechanism: the clean-up of the retry loop frees the pairs of EVERY missed attempt, also the last one, while the
        # handles were left active for "the next iteration"
        ctx.fail(case, f"after flush: a keep request gave up after its last allowed attempt; its clean-up freed the pairs but "
                       f"connection.active_qubits still lists their handles (ids {sorted(lost)}); controller allocated set {sorted(ctrl)}",
                 key=KF_GIVE_UP)
        return False
    ctx.fail(case, f"after flush: connection.active_qubits IDs {sorted(sdk)} but the controller has virtual qubits {sorted(ctrl)} allocated "
                   f"(budget {case['budget']}, {case['hardware']}{', transpiled' if case['transpile'] else ''})")
    return False
