"""C05 — SDK control flow and classical data flow compile to equivalent subroutines (L3 pipeline vs R-HOST)."""
from __future__ import annotations

import copy

import itertools

from vf.gen.host import HostGen
from vf.harness import hostdiff
from vf.ref import hostlang as hl

PID = "C05"
LEVEL = "exploration"
RULE = ("random host programs over if_eq/ne/lt/ge/ez/nz (context and callback forms), loop, loop_body, foreach, enumerate, "
        "loop_until with an at-most exit condition, add with and without modulus on Future/RegFuture with "
        "int/Future/register operands, arrays with initial values (incl. all-equal), new_register, measurement into "
        "futures / registers / loop-indexed entries, gates; nesting <= 4; random flush placement, and for small "
        "programs EVERY subset of top-level flush points; 1-2 random measurement scripts per program, and for programs "
        "with at most 16 (quick) / 64 (thorough) outcome sequences EVERY outcome sequence. Each is run through SDK -> assemble -> bytes -> "
        "controller -> executor and compared with direct evaluation after every flush: applied operations, arrays, "
        "registers, and every host handle created so far."
        ' A register-handle family measures again into existing RegFuture handles in the same and in later flush segments and branches on them. '
        ' Counted loops include steps that do not divide the range and empty ranges; add operands are passed both as register handles (RegFuture) and as registers. '
        " The host re-uses the list it passed as initial values of an array before the flush (every other array). Demonstration programs of known findings: a register handle kept across a flush; a RegFuture measured into twice with a condition opened in between. "
        "Non-trivial = direct evaluation executed at least one "
        "conditional body or loop iteration and >= 2 subroutines or >= 12 operations; distinct = distinct (program, script).")
ASSUMPTIONS = [
    "R-HOST gives the staged meaning of SDK host code (handles created once, operations per control-flow visit, arrays of a flush segment exist from its start)",
    "counted loops have integer bounds and a positive step; the index runs over range(start, stop, step), also when the step does not divide the range or the range is empty",
    "qubits allocated inside a body are measured destructively in that body; registers from new_register / register measurements are used only inside their flush segment (known finding regfuture-across-flush otherwise)",
    "host handles are read after every flush (M registers are recycled per flush); a stale read that equals the handle's first-read value is the known finding future-cache-after-mutation",
]
SHARDS = {"quick": 4, "thorough": 16}
MIN_COUNTERS = {"segments_compared": 300, "operations_compared": 1000, "host_handles_read": 1000}
MIN_NONTRIVIAL = {"quick": 100, "thorough": 2000}
WALL_BUDGET = {"quick": 200, "thorough": 2400}


def _scripts(rng, k):
    return [[rng.randrange(2) for _ in range(24)] for _ in range(k)]


def cases(ctx):
    rng = ctx.rng
    # the two known-finding demonstrations (fixed programs)
    if ctx.shard == 0:
        yield {"kind": "prog", "prog": [
            {"op": "array", "name": "a1", "init": [5]}, {"op": "add", "target": {"kind": "entry", "array": "a1", "idx": 0}, "other": 0, "mod": None},
            {"op": "flush"},
            {"op": "add", "target": {"kind": "entry", "array": "a1", "idx": 0}, "other": 1, "mod": None}], "script": []}
        yield {"kind": "kf-reg-across-flush"}
        for outer in ("loop", "foreach"):
            for reg in ("R0", "R1", "R7"):
                yield {"kind": "named-loop-register", "outer": outer, "reg": reg}
        yield {"kind": "kf-remeasure"}
        yield {"kind": "kf-mreg-recycled"}
        # a loop whose bound is a value the host read after an earlier flush (the resolved Future itself is passed as `stop`)
        for n_ in (0, 1, 3, 4):
            for step in (1, 2, 3):
                for form in ("ctx", "cb"):
                    yield {"kind": "prog", "script": [], "prog": [
                        {"op": "array", "name": "a1", "init": [n_, 0, 7]}, {"op": "flush"},
                        {"op": "loop", "var": "i1", "start": 0, "stop": n_, "stop_from": {"array": "a1", "idx": 0}, "step": step, "form": form,
                         "body": [{"op": "add", "target": {"kind": "entry", "array": "a1", "idx": 1}, "other": 1, "mod": None}]},
                        {"op": "add", "target": {"kind": "entry", "array": "a1", "idx": 2}, "other": 1, "mod": None}]}
        # every add form on both kinds of target with the operands 0 and 1, with and without a modulus that the value already
        # exceeds (adding 0 modulo m still reduces), in one and in two flush segments
        for kind in ("reg", "entry"):
            for other in (0, 1, -1):
                for mod in (None, 2, 3):
                    for split in (False, True):
                        tgt = {"kind": "reg", "name": "r1"} if kind == "reg" else {"kind": "entry", "array": "a1", "idx": 1}
                        prog = [{"op": "array", "name": "a1", "init": [4, 7]}, {"op": "reg", "name": "r1", "init": 5}] + \
                               ([{"op": "flush"}] if split else []) + \
                               [{"op": "add", "target": tgt, "other": other, "mod": mod},
                                {"op": "add", "target": {"kind": "entry", "array": "a1", "idx": 0}, "other": copy.deepcopy(tgt), "mod": None}]
                        yield {"kind": "prog", "prog": prog, "script": []}
    # as many register outcomes in ONE subroutine as there are M registers (16), and one fewer
    if ctx.shard == 0:
        for n_ in (15, 16):
            prog = []
            for i_ in range(n_):
                prog += [{"op": "qalloc", "q": f"w{i_}"}, {"op": "gate", "g": "h", "q": f"w{i_}"},
                         {"op": "meas", "q": f"w{i_}", "to": {"kind": "reg", "name": f"mr{i_}"}, "inplace": False}]
            yield {"kind": "prog", "prog": prog, "script": [rng.randrange(2) for _ in range(24)], "family": "all-M-registers"}
    for _ in range(ctx.n(900, 120000)):
        g = HostGen(rng, max_depth=rng.choice([2, 3, 4]))
        prog = g.program(rng.randrange(2, 9), p_flush=rng.choice([0.0, 0.2, 0.4, 0.7]))
        for sc in _scripts(rng, rng.choice([1, 1, 2])):
            yield {"kind": "prog", "prog": prog, "script": sc}
    # register handles: measured, measured into again (same handle) in the same or a later flush segment, used in conditions
    for _ in range(ctx.n(150, 15000)):
        prog, seg, names, nq = [{"op": "qalloc", "q": "k0"}, {"op": "array", "name": "t0", "init": [0, 0]}], [], [], 0
        tally = rng.random() < 0.6
        for _j in range(rng.randrange(4, 12)):
            c = rng.choice(["new", "new", "reuse", "reuse", "flush", "if"])
            if c == "flush":
                prog.append({"op": "flush"})
                seg = []
            elif c == "if" and seg:
                prog.append({"op": "if", "cond": rng.choice(["eq", "ne"]), "a": {"kind": "reg", "name": rng.choice(seg)}, "b": rng.choice([0, 1]),
                             "form": rng.choice(["ctx", "cb"]), "body": [{"op": "gate", "g": rng.choice(["x", "z", "h"]), "q": "k0"}]})
            elif c in ("new", "reuse"):
                nq += 1
                q = f"w{nq}"
                prog += [{"op": "qalloc", "q": q}, {"op": "gate", "g": "h", "q": q}]
                if c == "reuse" and names:
                    nm = rng.choice(names)
                    prog.append({"op": "meas", "q": q, "to": {"kind": "reg", "name": nm, "reuse": True}, "inplace": False})
                else:
                    nm = f"mr{nq}"
                    names.append(nm)
                    prog.append({"op": "meas", "q": q, "to": {"kind": "reg", "name": nm}, "inplace": False})
                if nm not in seg:
                    seg.append(nm)
                if tally and rng.random() < 0.6:
                    # the outcome just measured selects the array entry that is counted up (one handle per register handle,
                    # kept by the host across re-measurements and flushes)
                    prog.append({"op": "add", "target": {"kind": "entry", "array": "t0", "idx": {"reg": nm}}, "other": rng.choice([1, 2, 5]), "mod": None})
        yield {"kind": "prog", "prog": prog, "script": [rng.randrange(2) for _ in range(24)], "family": "register-handles"}
    # every measurement script (all outcome sequences) for programs with few random measurements
    for _ in range(ctx.n(40, 4000)):
        g = HostGen(rng, max_depth=rng.choice([2, 3]))
        prog = g.program(rng.randrange(2, 6), p_flush=rng.choice([0.0, 0.3]))
        scripts = all_scripts(prog, cap=16 if ctx.quick else 64)
        if scripts is None or len(scripts) < 2:
            continue
        ctx.count("programs_with_all_scripts")
        for sc in scripts:
            yield {"kind": "prog", "prog": prog, "script": sc, "all_scripts": len(scripts)}
    # every subset of top-level flush points for small programs
    for _ in range(ctx.n(25, 1500)):
        g = HostGen(rng, max_depth=3, allow_regs=False)
        g.reg_operands = False
        base = [s for s in g.program(rng.randrange(2, 6), p_flush=0.0) if s["op"] != "flush"]
        n = len(base)
        if n < 2 or n > 6:
            continue
        sc = _scripts(rng, 1)[0]
        for mask in range(2 ** (n - 1)):
            prog = []
            for i, st in enumerate(base):
                prog.append(st)
                if i < n - 1 and (mask >> i) & 1:
                    prog.append({"op": "flush"})
            yield {"kind": "prog", "prog": prog, "script": sc, "flushmask": mask}


def all_scripts(prog, cap=64):
    """All outcome sequences of the non-forced measurements of `prog` (the reference tells which measurements are random);
    None if there are more than `cap`."""
    out, stack = [], [[]]
    while stack:
        s = stack.pop()
        ref = hl.DirectEval(s, step_bound=4000)
        try:
            for seg in hl.segments(prog):
                ref.run_segment(seg)
        except (hl.HostFault, hl.StepBound):
            return None
        used = len(ref.script.free_choices())
        if used > len(s):
            stack.append(s + [0])
            stack.append(s + [1])
        else:
            out.append(s)
        if len(out) + len(stack) > cap:
            return None
    return out


def _named_loop_register(ctx, case):
    """conn.loop_body(body, 2, loop_register=<name>) inside an enclosing loop / foreach over 3 entries: either the call is refused
    (the name is the register the enclosing construct counts in) or the inner body runs 3 x 2 times."""
    from vf.harness.pipeline import Pipe
    pipe = Pipe(script=[], max_qubits=2)
    ctx.count("named_loop_register_cases")
    try:
        with pipe.conn as conn:
            acc = conn.new_array(1, init_values=[0])
            vals = conn.new_array(3, init_values=[1, 1, 1])

            def inner(_conn, _i):
                acc.get_future_index(0).add(1)
            refused = False
            try:
                if case["outer"] == "loop":
                    with conn.loop(3):
                        conn.loop_body(inner, 2, loop_register=case["reg"])
                else:
                    with vals.foreach():
                        conn.loop_body(inner, 2, loop_register=case["reg"])
            except ValueError:
                refused = True
                ctx.count("named_loop_register_refused")
            conn.flush()
            got = pipe.ex.arrays_snapshot(pipe.app_id).get(acc.address)
    except (hc.ControllerFault, hc.StepLimit, hc.Deadlock) as e:
        ctx.fail(case, f"loop_body(.., 2, loop_register={case['reg']!r}) inside a {case['outer']} over 3: the emitted subroutine failed: {str(e)[:160]}")
        return ctx.case(case, True)
    if not refused and got != [6]:
        ctx.fail(case, f"loop_body(.., 2, loop_register={case['reg']!r}) inside a {case['outer']} over 3 was accepted and the inner body ran "
                       f"{got} time(s) instead of 6 (it counts in a register the enclosing construct uses)")
    ctx.case(case, True)


def run_case(ctx, case):
    if case["kind"] == "named-loop-register":
        return _named_loop_register(ctx, case)
    if case["kind"] == "kf-mreg-recycled":
        return _kf_mreg_recycled(ctx, case)
    if case["kind"] == "kf-remeasure":
        return _kf_remeasure(ctx, case)
    if case["kind"] == "kf-reg-across-flush":
        return _kf_reg(ctx, case)
    prog, script = case["prog"], case["script"]

    def fail(what, key):
        ctx.fail(case, what, key=key)
    import logging
    import os
    lg = logging.getLogger("NetQASM")
    old_level, streams, sink = lg.level, [], None
    if ctx.evaluations % 5 == 2:
        # the application runs with the package's logging at DEBUG (messages are formatted, and thrown away): turning on the
        # log changes nothing of what the program does
        sink = open(os.devnull, "w")
        for h in lg.handlers:
            if isinstance(h, logging.StreamHandler):
                streams.append((h, h.setStream(sink)))
        lg.setLevel(logging.DEBUG)
        ctx.count("programs_run_with_debug_logging")
    try:
        res = hostdiff.run_differential(prog, script, fail, ctx.count, neighbours=ctx.evaluations % 3 == 1)
    except hostdiff.Discard as d:
        ctx.count("discarded_" + str(d).split(":")[0].replace(" ", "_"))
        return ctx.case(case, False)
    finally:
        if sink is not None:
            lg.setLevel(old_level)
            for h, st in streams:
                h.setStream(st)
            sink.close()
    nontrivial = False
    if res.get("ref") is not None:
        ref = res["ref"]
        nseg = len(hl.segments(prog))
        nontrivial = (ref.executed_bodies + ref.iterations) >= 1 and (nseg >= 2 or len(ref.trace) + ref.steps >= 12)
        ctx.count("bodies_executed", ref.executed_bodies)
        ctx.count("loop_iterations", ref.iterations)
    ctx.case(case, nontrivial)


def _kf_mreg_recycled(ctx, case):
    """Known finding: the M registers are handed out anew after every flush, also those still bound to a RegFuture the program
    holds: a register measurement of the next subroutine lands in the register of the earlier handle."""
    from netqasm.sdk.qubit import Qubit
    from vf.harness.pipeline import Pipe
    pipe = Pipe(script=[1, 0, 0, 0])
    fault = None
    with pipe.conn as conn:
        q1, q2, t = Qubit(conn), Qubit(conn), Qubit(conn)
        q1.X()
        m1 = q1.measure(store_array=False)         # outcome 1
        conn.flush()
        m2 = q2.measure(store_array=False)         # outcome 0
        with m1.if_eq(1):                          # true when executed directly
            t.X()
        try:
            conn.flush()
            host1, host2 = int(m1), int(m2)
        except Exception as e:
            host1 = host2 = None
            fault = f"{type(e).__name__}: {str(e)[:100]}"
        n_x = sum(1 for ev in pipe.ex.trace if ev[0] == "x")
        t.measure()
    if fault or n_x != 2 or host1 != 1 or host2 != 0:
        ctx.fail(case, f"m1 = q1.measure(store_array=False) -> 1; flush; m2 = q2.measure(store_array=False) -> 0; with m1.if_eq(1): t.X(): "
                       f"executed directly X is applied to t and the host reads m1 = 1, m2 = 0; the controller applied {n_x - 1} X gate(s) to t, "
                       f"the host reads m1 = {host1}, m2 = {host2} (registers {m1.reg}, {m2.reg})" + (f", fault {fault}" if fault else ""),
                 key="regfuture-across-flush:m-register-handed-out-again")
    ctx.case(case, True)


def _kf_remeasure(ctx, case):
    """Known finding: a RegFuture handle that the program measures into twice is bound to a new M register by every
    measurement; a condition on the handle that was opened before the second measurement is compiled against the register
    of the second one."""
    from netqasm.sdk.futures import RegFuture
    from netqasm.sdk.qubit import Qubit
    from vf.harness.pipeline import Pipe
    pipe = Pipe(script=[1, 0, 0])
    with pipe.conn as conn:
        q = Qubit(conn)
        m = RegFuture(conn)
        q.measure(future=m, inplace=True)          # outcome 1
        with m.if_ne(1):                           # not taken when executed directly
            q.X()
            q.measure(future=m, inplace=True)
        try:
            conn.flush()
            host = int(m)
            fault = None
        except Exception as e:
            host, fault = None, f"{type(e).__name__}: {str(e)[:100]}"
    nmeas = len(pipe.ex.meas_log)
    if fault or nmeas != 1 or host != 1:
        ctx.fail(case, f"m = RegFuture(); q.measure(future=m) -> 1; with m.if_ne(1): q.X(); q.measure(future=m): executed directly the body is "
                       f"skipped (1 measurement, m = 1); the controller performed {nmeas} measurement(s), the host reads m = {host}"
                       + (f", fault {fault}" if fault else ""), key="regfuture-remeasured:handle-rebound-to-a-new-register")
    ctx.case(case, True)


def _kf_reg(ctx, case):
    """Known finding: a register from new_register() kept across a flush is clobbered by the next subroutine's
    assembler scratch 'set'."""
    from vf.harness.pipeline import Pipe
    pipe = Pipe()
    with pipe.conn as conn:
        r = conn.builder.new_register(init_value=5)
        conn.flush()
        host1 = r.value
        a = conn.new_array(2, init_values=[1, 2])
        a.get_future_index(0).add(7)
        conn.flush()
        ctrl = pipe.ex._get_register(pipe.app_id, r.reg)
        host2 = r.value
    if host1 != 5:
        ctx.fail(case, f"new_register(5) reads {host1} on the host after the flush")
    elif ctrl != 5 or host2 != 5:
        ctx.fail(case, f"register handle kept across a flush: controller now holds {ctrl}, host reads {host2}, expected 5",
                 key="regfuture-across-flush:clobbered-by-assembler-scratch")
    ctx.case(case, True)
