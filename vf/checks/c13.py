"""C13 — qubit memory is safe and applications are isolated on the controller (L2, message-level histories).

Histories of InitNewApp / Subroutine / StopApp messages (as *bytes*, decoded with the repo's deserialisers) and
keep-response deliveries are driven through real QNodeControllers; invariants are evaluated by the driver at every
quiescent point (after every message / delivery), plus icontract postconditions on the plain functions
`Executor._allocate_physical_qubit` and `Executor.init_new_application`.
"""
from __future__ import annotations

import re

import copy
import random

from vf.harness import controller as hc

PID = "C13"
LEVEL = "exploration"
RULE = ("operations: init(app, unit) / stop(app) / subroutines doing qalloc, qfree (incl. faulting double alloc and free of "
        "unallocated), classical register and array writes with ret_reg/ret_arr, recv_epr(keep)+wait (the subroutine stays "
        "blocked while other applications run) / keep-response deliveries (incl. logical qubit id 0 and responses deferred "
        "on a busy virtual qubit) over up to 3 applications with unit modules 1..4, on two controllers (different node names, "
        "same app ids) in one process. Exploration: bounded search over operation sequences with state hashing (quick depth 5, "
        "thorough depth 7) on a 2-application alphabet, plus random walks of 150 (quick) / 500 (thorough) operations. "
        "Invariants after every operation: no two allocated virtual qubits share a physical qubit; mapped subset of used; "
        "used minus mapped subset of in-flight pair ids (equality when no response is pending); operations of application A "
        "leave every other application's registers, arrays, shared memory and unit module (and the other controller) "
        "untouched; after stop nothing of the application remains and the same id registers again."
        ' Early arrivals (a keep-response whose memory position is reserved before the matching recv is posted, possibly across a stop and re-registration); a second bounded search from two registered applications over an alphabet of blocking subroutines, deliveries and early arrivals; SDK-level walks (connections of one party opened and closed in any order with explicit and automatic application ids, allocating / freeing / writing) under the same invariants. '
        ' A second registration of an id that is still registered must be refused and change nothing. '
        ' Deliveries go through a polling link layer: a hand-over that fails loudly (request for a qubit id outside the unit module, request that outlived its subroutine - op recvnw -, result array too short - op recvs) is re-polled and the positions of responses the executor gave up on are taken back; rule: a pending pair whose request is alive, whose application is suspended in its wait and whose qubit id is free must have been handed over (asked from the executor\'s records and from the harness\'s own); a memory position may not be both mapped and pending. '
        "Non-trivial = every "
        "history with >= 2 applications active at some point; distinct = distinct operation sequence; 'states' = "
        "distinct abstract controller states visited.")
ASSUMPTIONS = ["the link layer reserves a physical id before the response is consumed (in-flight ids are excluded from used == mapped while a response is pending)",
               "a faulting subroutine is a legitimate history element: the invariants must hold after the fault as well",
               "the link layer learns from the exception that a hand-over failed, polls again and owns the positions of responses the executor dropped",
               "subroutines of different applications may be in flight at once (a subroutine blocked in a wait does not stop other applications)"]
SHARDS = {"quick": 4, "thorough": 16}
MIN_COUNTERS = {"invariant_evaluations": 3000, "allocate_postconditions": 200, "stops_checked": 100, "isolation_snapshots": 2000}
MIN_NONTRIVIAL = {"quick": 300, "thorough": 5000}
WALL_BUDGET = {"quick": 200, "thorough": 2400}

KF_STOP = "epr-request:survives-stop-application"
_state = {"ctx": None, "viol": None, "installed": False}


class InvariantBroken(Exception):
    pass


def setup(ctx):
    import icontract
    from netqasm.backend import executor as ex_mod
    _state["ctx"] = ctx
    if _state["installed"]:
        return

    def phys_not_shared(self, subroutine_id, virtual_address, physical_address, result):
        _state["ctx"].count("allocate_postconditions")
        owners = [(a, v) for a, um in self._qubit_unit_modules.items() for v, p in enumerate(um) if p == result]
        if len(owners) != 1:
            _state["viol"] = f"_allocate_physical_qubit returned physical {result}, now mapped by {owners}"
        elif result not in self._used_physical_qubit_addresses:
            _state["viol"] = f"_allocate_physical_qubit returned physical {result} which is not marked in use"
        return True

    def app_registered(self, app_id, max_qubits):
        ok = (self._qubit_unit_modules.get(app_id) == [None] * max_qubits and app_id in self._registers
              and app_id in self._app_arrays and app_id in self._shared_memories)
        if not ok:
            _state["viol"] = f"init_new_application({app_id}, {max_qubits}) left incomplete state"
        return True

    cls = ex_mod.Executor
    cls._allocate_physical_qubit = icontract.ensure(phys_not_shared, error=InvariantBroken)(cls._allocate_physical_qubit)
    cls.init_new_application = icontract.ensure(app_registered, error=InvariantBroken)(cls.init_new_application)
    _state["installed"] = True


# ---- the world: two controllers ------------------------------------------------------------------------------------

class World:
    def __init__(self, nodes=("n0", "n1")):
        hc.reset_globals()
        self.nodes = {}
        for i, n in enumerate(nodes):
            ctrl = hc.make_node(n, node_id=i, stack=hc.RecordingStack(), step_limit=100000)
            self.nodes[n] = {"ctrl": ctrl, "ex": ctrl.executor, "active": {}, "blocked": [], "requests": [], "msg": 0,
                             "rid": 0, "early": [], "tags": {}}

    # -- operations ---------------------------------------------------------------------------------------
    def send(self, node, msg_obj, app=None, tag=None):
        from netqasm.backend.messages import deserialize_host_msg
        n = self.nodes[node]
        raw = bytes(msg_obj)
        msg = deserialize_host_msg(raw)
        n["msg"] += 1
        gen = n["ctrl"].handle_netqasm_message(n["msg"], msg)
        n["tags"][id(gen)] = tag
        return self._drive(n, gen, app)

    def _drive(self, n, gen, app=None):
        """Run a message handler until it finishes, faults or blocks in a wait."""
        try:
            for ev in gen:
                if ev is not None and ev[0] == "wait":
                    n["blocked"].append((app, gen))
                    return "blocked"
                if ev is not None and ev[0] == "step" and n["ex"]._pending_epr_responses:
                    self.poll(n)
            return "done"
        except hc.StepLimit:
            return "bound"
        except InvariantBroken:
            raise
        except Exception as exc:
            n["faults"] = n.get("faults", 0) + 1
            return f"fault:{type(exc).__name__}"

    def poll(self, n, resp=None):
        """The link layer hands a response to the executor (or the driver re-polls the pending ones). A hand-over may fail loudly -
        the response belongs to a request of a program that slipped - and the link layer, which is told by the exception, polls
        again and takes back the memory positions of responses the executor has given up on. What may not happen: a response
        that CAN be handed over (its own request is alive, its qubit id free) stays behind because another one fails."""
        ex = n["ex"]
        errors = []
        for attempt in range(len(ex._pending_epr_responses) + 3):
            first = resp is not None and attempt == 0
            before = list(ex._pending_epr_responses) + ([resp] if first else [])
            try:
                if first:
                    ex._handle_epr_response(resp)
                else:
                    ex._handle_pending_epr_responses()
                break
            except InvariantBroken:
                raise
            except Exception as exc:
                errors.append(type(exc).__name__)
                # a pair whose virtual qubit is still in use WAITS (it stays pending until the application frees the qubit): the
                # executor may not try to map it and fail with "already allocated" - the response would be lost.  (Only ids
                # 0..len-1: a negative id, which indexes the unit module from its end, is not looked up as "in use" by any tree.)
                m_busy = re.search(r"QubitAddress at address (\d+) for application (\d+) is already allocated", str(exc))
                if m_busy and 0 <= int(m_busy.group(1)) < len(ex._qubit_unit_modules.get(int(m_busy.group(2))) or []) and not n.get("busy_failed"):
                    n["busy_failed"] = (f"a pair for virtual qubit {m_busy.group(1)} of application {m_busy.group(2)}, which is still in use: "
                                  f"the executor tried to map it at once ({type(exc).__name__}: {str(exc).splitlines()[0][:120]}) "
                                  f"instead of keeping the response pending")
                mapped = {p for um in ex._qubit_unit_modules.values() for p in um if p is not None}
                for r in before:
                    pos = getattr(r, "logical_qubit_id", None)
                    if pos is not None and pos not in mapped and not any(r is x for x in ex._pending_epr_responses):
                        ex._used_physical_qubit_addresses.discard(pos)
                        ex.inflight_phys.discard(pos)
        if errors:
            n["poll_faults"] = n.get("poll_faults", 0) + len(errors)
        stuck = deliverable_but_pending(ex) or self.owed_to_a_waiting_application(n)
        if stuck and not n.get("stuck"):
            n["stuck"] = (stuck, errors)
        return errors

    def owed_to_a_waiting_application(self, n):
        """The same question asked from the harness's own records (which application posted the request for a socket, for which
        qubit id) instead of the executor's: a pending pair whose application is registered and suspended in its wait, whose
        qubit id is free, and whose request is the only one outstanding on its socket must have been handed over."""
        ex = n["ex"]
        waiting = {a for a, _ in n["blocked"]}
        for r in ex._pending_epr_responses:
            info = n.get("req_info", {}).get(getattr(r, "purpose_id", None))
            if info is None or not hasattr(r, "logical_qubit_id"):
                continue
            app, v = info
            um = ex._qubit_unit_modules.get(app)
            queue = ex._epr_recv_requests.get((r.remote_node_id, r.purpose_id)) or []
            if um is None or app not in waiting or len(queue) != 1 or queue[0].pairs_left != 1:
                continue
            if 0 <= v < len(um) and um[v] is None:
                return (f"the pair for socket {r.purpose_id}, requested by application {app} for its virtual qubit {v} "
                        f"(memory position {r.logical_qubit_id}; the application is suspended in its wait, the qubit id is free)")
        return None

    def resume(self, node):
        n = self.nodes[node]
        gens, n["blocked"] = n["blocked"], []
        for app, g in gens:
            self._drive(n, g, app)

    def waiting_apps(self, node):
        return {a for a, _ in self.nodes[node]["blocked"]}

    def deliver_keep(self, node, phys_zero_first=False):
        from netqasm import qlink_compat as ql
        n = self.nodes[node]
        if not n["requests"]:
            return "none"
        app, socket = n["requests"].pop(0)
        ex = n["ex"]
        phys = ex._get_unused_physical_qubit()
        ex.inflight_phys.add(phys)
        n["rid"] += 1
        if n["rid"] % 2 == 1:
            # (a link layer written with numpy hands its integers over as numpy integers: same values)
            import numpy as _np
            phys = _np.int64(phys)
        resp = ql.LinkLayerOKTypeK(type=ql.ReturnType.OK_K, create_id=n["rid"], logical_qubit_id=phys, directionality_flag=1,
                                   sequence_number=n["rid"], purpose_id=socket, remote_node_id=9, goodness=1, goodness_time=1,
                                   bell_state=ql.BellState.PHI_PLUS)
        errors = self.poll(n, resp)
        self.resume(node)
        return f"fault:{errors[0]}" if errors else "delivered"

    def deliver_early(self, node, app, v):
        """The remote side is ahead: a pair for socket (app, v) is generated, its memory position reserved and the OK message
        handed to the executor BEFORE the application has posted the matching recv_epr (it stays pending)."""
        from netqasm import qlink_compat as ql
        n = self.nodes[node]
        sock = 10 * app + v
        if (app, sock) in n["requests"] or sock in n["early"]:
            return "skip"
        ex = n["ex"]
        phys = ex._get_unused_physical_qubit()
        ex.inflight_phys.add(phys)
        n["rid"] += 1
        n["early"].append(sock)
        resp = ql.LinkLayerOKTypeK(type=ql.ReturnType.OK_K, create_id=n["rid"], logical_qubit_id=phys, directionality_flag=1,
                                   sequence_number=n["rid"], purpose_id=sock, remote_node_id=9, goodness=1, goodness_time=1,
                                   bell_state=ql.BellState.PHI_PLUS)
        errors = self.poll(n, resp)
        self.resume(node)
        return f"fault:{errors[0]}" if errors else "early"


def deliverable_but_pending(ex):
    """The first pending keep-response whose own request is alive and whose qubit id is free - the executor should have handed it
    over when it was last polled."""
    from netqasm.backend.executor import OK_FIELDS
    seen = set()
    for r in ex._pending_epr_responses:
        if not hasattr(r, "logical_qubit_id"):
            continue
        key = (r.remote_node_id, r.purpose_id)
        if key in seen:
            continue
        seen.add(key)
        queue = ex._epr_recv_requests.get(key) or []
        if not queue:
            continue
        head = queue[0]
        sub = ex._subroutines.get(head.subroutine_id)
        if sub is None or sub.app_id not in ex._qubit_unit_modules or sub.app_id not in ex._app_arrays:
            continue
        app = sub.app_id
        pair = head.tot_pairs - head.pairs_left
        try:
            ids = getattr(head, "virtual_qubit_ids", None)
            v = ids[pair] if ids is not None else ex._app_arrays[app][head.q_array_address, pair]
            ent = ex._app_arrays[app][head.ent_results_array_address, 0:(pair + 1) * OK_FIELDS]
        except Exception:
            continue
        um = ex._qubit_unit_modules[app]
        if not isinstance(v, int) or not 0 <= v < len(um) or um[v] is not None or len(ent) != (pair + 1) * OK_FIELDS:
            continue
        return f"the pair for socket {r.purpose_id} of application {app} (virtual qubit {v}, memory position {r.logical_qubit_id})"
    return None


def sub_msg(app, text):
    from netqasm.backend.messages import SubroutineMessage
    from netqasm.lang.parsing.text import parse_text_subroutine
    return SubroutineMessage(parse_text_subroutine(f"# NETQASM 1.0\n# APPID {app}\n{text}"))


def do_op(w: World, op):
    from netqasm.backend.messages import InitNewAppMessage, StopAppMessage
    k, node = op[0], op[1]
    n = w.nodes[node]
    if k == "init":
        _, _, app, unit = op
        if app in n["active"]:
            # a second registration of an id that is still registered (another host program picked the same id): it must be
            # refused and must leave the running application exactly as it was
            before = snapshot_app(n["ex"], node, app)
            r = w.send(node, InitNewAppMessage(app_id=app, max_qubits=unit), app)
            after = snapshot_app(n["ex"], node, app)
            if r == "done":
                return "fault-visible:the controller accepted a second registration of the running application id"
            if after != before:
                diff = [x for x in before if before[x] != after[x]]
                return f"fault-visible:a refused second registration changed the running application ({', '.join(diff)}: {before[diff[0]]} -> {after[diff[0]]})"
            return "refused"
        r = w.send(node, InitNewAppMessage(app_id=app, max_qubits=unit), app)
        if r == "done":
            n["active"][app] = unit
        return r
    if k == "deliver":
        return w.deliver_keep(node)
    if k == "early":
        return w.deliver_early(node, op[2], op[3])      # whether or not the application is registered right now
    app = op[2]
    if app not in n["active"]:
        return "skip"
    if k == "stop":
        if app in w.waiting_apps(node):
            return "skip"   # a host stops its application after its subroutines have returned
        r = w.send(node, StopAppMessage(app_id=app), app)
        if r == "done":
            n["active"].pop(app)
        return r
    if k == "alloc":
        return w.send(node, sub_msg(app, f"set Q0 {op[3]}\nqalloc Q0\ninit Q0\n"), app)
    if k == "free":
        return w.send(node, sub_msg(app, f"set Q0 {op[3]}\nqfree Q0\n"), app)
    if k == "write":
        tagv = 1000 * (app + 1) + op[3]
        return w.send(node, sub_msg(app, f"set R{op[3] % 16} {tagv}\nset C1 {tagv + 1}\narray 2 @{op[3] % 3}\nstore {tagv} @{op[3] % 3}[1]\n"
                                         f"ret_reg R{op[3] % 16}\nret_arr @{op[3] % 3}\n"), app)
    if k == "recvnw":
        # a receive request whose subroutine returns without waiting for it (the application waits in a later subroutine)
        v = op[3]
        sock = 10 * app + v
        if app in w.waiting_apps(node) or (app, sock) in n["requests"]:
            return "skip"
        r = w.send(node, sub_msg(app, f"array 10 @7\narray 1 @8\nstore {v} @8[0]\nrecv_epr(9,{sock}) 8 7\n"), app)
        if r == "done":
            n["requests"].append((app, sock))
        return r
    if k == "recvs":
        # a receive request whose array for the entanglement information is too short (a program slip): the pair is handed over,
        # writing its information fails loudly - once
        v = op[3]
        sock = 10 * app + 9        # one socket for all of them: a response that is replayed finds the next request
        if app in w.waiting_apps(node) or (app, sock) in n["requests"] or sock in n["early"]:
            return "skip"
        r = w.send(node, sub_msg(app, f"array 5 @5\narray 1 @6\nstore {v} @6[0]\nrecv_epr(9,{sock}) 6 5\nwait_all @5[0:5]\n"), app, tag=(k, v))
        if r == "blocked":
            n["requests"].append((app, sock))
        return r
    if k in ("recv", "recvf"):
        v = op[3]
        sock = 10 * app + v
        if app in w.waiting_apps(node):
            return "skip"   # one subroutine in flight per application
        # "recvf": the subroutine faults after its wait (frees a qubit outside the unit module) - an older subroutine can fail
        # while a younger one is still waiting
        # (the register the faulting instruction needs is written before the wait: a resumed subroutine changes nothing but what
        # its own response delivers, so the isolation snapshot stays exact for every other application)
        head = "set Q1 9\n" if k == "recvf" else ""
        tail = "qfree Q1\n" if k == "recvf" else ""
        r = w.send(node, sub_msg(app, head + f"array 10 @5\narray 1 @6\nstore {v} @6[0]\nrecv_epr(9,{sock}) 6 5\nwait_all @5[0:10]\n" + tail), app, tag=(k, v))
        if r == "blocked":
            n["requests"].append((app, sock))
            n.setdefault("req_info", {})[sock] = (app, v)
        elif sock in n["early"] and not any(getattr(x, "purpose_id", None) == sock for x in n["ex"]._pending_epr_responses):
            n["early"].remove(sock)        # the early pair was handed over
        return r
    if k == "deliver":
        return w.deliver_keep(node)
    raise ValueError(k)


# ---- invariants ----------------------------------------------------------------------------------------------------

def snapshot_app(ex, node, app):
    from netqasm.sdk.shared_memory import SharedMemoryManager
    shm = SharedMemoryManager.get_shared_memory(node, app)
    return {"regs": ex.registers_snapshot(app), "arrays": ex.arrays_snapshot(app), "unit": ex.unit_module(app),
            "shm": None if shm is None else (sorted((str(k), v) for k, v in _shm_regs(shm).items()), copy.deepcopy(shm._arrays._arrays))}


def _shm_regs(shm):
    out = {}
    for name, group in shm._registers.items():
        for i in range(16):
            v = group[i]
            if v is not None:
                out[f"{name.name}{i}"] = v
    return out


def check_invariants(w: World, ctx, where):
    from netqasm.sdk.shared_memory import SharedMemoryManager
    ctx.count("invariant_evaluations")
    for node, n in w.nodes.items():
        ex = n["ex"]
        mapped = [(a, v, p) for a, um in ex._qubit_unit_modules.items() for v, p in enumerate(um) if p is not None]
        phys = [p for _, _, p in mapped]
        if len(set(phys)) != len(phys):
            dup = sorted({p for p in phys if phys.count(p) > 1})
            return f"{where}: on {node} physical qubit(s) {dup} are mapped by more than one virtual qubit: {[(a, v) for a, v, p in mapped if p in dup]}"
        used = set(ex._used_physical_qubit_addresses)
        if not set(phys) <= used:
            return f"{where}: on {node} mapped physical qubits {sorted(set(phys) - used)} are not marked in use"
        pending_ids = {r.logical_qubit_id for r in ex._pending_epr_responses if hasattr(r, "logical_qubit_id")}
        if not pending_ids <= used:
            return (f"{where}: on {node} the memory position(s) {sorted(pending_ids - used)} reserved for a pair that has not been handed "
                    f"over yet are no longer marked in use")
        if pending_ids & set(phys):
            return (f"{where}: on {node} the pair at memory position(s) {sorted(pending_ids & set(phys))} has been handed over (a virtual qubit "
                    f"maps to it) and is still among the pending responses - it will be handed over a second time")
        extra = used - set(phys)
        if not extra <= pending_ids:
            return (f"{where}: on {node} physical qubits {sorted(extra - pending_ids)} are marked in use but mapped by no virtual qubit "
                    f"(pending response ids {sorted(pending_ids)})")
        # the backend's qubit memory (what the executor's reserve / clear hooks were told) == the physical qubits in use
        held = {l[1] for l in ex.sv.labels if l[0] == "p"}
        if held != used - pending_ids:
            return (f"{where}: on {node} the quantum memory holds physical qubits {sorted(held)} but the executor has {sorted(used - pending_ids)} mapped "
                    f"(a hook was called for the wrong position)")
        # applications known to the executor == applications the host registered
        for store_name, store in (("unit modules", ex._qubit_unit_modules), ("registers", ex._registers), ("arrays", ex._app_arrays),
                                  ("shared memories", ex._shared_memories)):
            if set(store) != set(n["active"]):
                return f"{where}: on {node} {store_name} exist for apps {sorted(store)} but the registered apps are {sorted(n['active'])}"
        for (nn, a), mem in list(SharedMemoryManager._MEMORIES.items()):
            if nn == node and mem is not None and a not in n["active"]:
                return f"{where}: global shared memory for ({nn}, {a}) survives although the application is not registered"
    return None


def abstract_state(w: World):
    out = []
    for node, n in sorted(w.nodes.items()):
        ex = n["ex"]
        # part of the executor's own bookkeeping that decides how a later subroutine is numbered (kept abstract: is the id
        # counter ahead of every subroutine it still knows?) - two histories that differ here must both be extended
        nid = getattr(ex, "_next_subroutine_id", None)
        ahead = tuple(sorted({min(nid - k, 1) for k in getattr(ex, "_subroutines", {})})) if isinstance(nid, int) else ()
        # ... and does it still know every subroutine that is suspended in a wait?
        ahead += (max(-2, min(2, len(getattr(ex, "_subroutines", {})) - len(n["blocked"]))),)
        out.append((node, tuple(sorted((a, tuple(p is not None for p in um)) for a, um in ex._qubit_unit_modules.items())),
                    len(ex._used_physical_qubit_addresses), len(ex._pending_epr_responses),
                    tuple((a, n["tags"].get(id(g))) for a, g in n["blocked"]), len(n["requests"]), min(n.get("faults", 0), 2), ahead,
                    tuple(sorted((a, tuple(sorted(ex.registers_snapshot(a)))) for a in n["active"]))))
    return tuple(out)


def run_history(ctx, ops):
    """Returns (error or None, info)."""
    _state["viol"] = None
    w = World()
    states = set()
    multi = False
    for i, op in enumerate(ops):
        node = op[1]
        n = w.nodes[node]
        # isolation snapshot: everything except the application the operation addresses
        target_app = op[2] if len(op) > 2 else None
        if op[0] == "deliver":
            target_app = n["requests"][0][0] if n["requests"] else None
        before = {}
        for nn, m in w.nodes.items():
            for a in m["active"]:
                if not (nn == node and a == target_app):
                    before[(nn, a)] = snapshot_app(m["ex"], nn, a)
        ctx.count("isolation_snapshots", len(before))
        try:
            res = do_op(w, tuple(op))
        except InvariantBroken as e:
            return f"operation {i} {op}: {e}", None
        if _state["viol"]:
            return f"operation {i} {op}: {_state['viol']}", None
        if n.get("busy_failed"):
            return f"operation {i} {op}: {n['busy_failed']}", None
        if n.get("stuck"):
            what, errors = n["stuck"]
            why = (f"every poll of the pending responses raises {sorted(set(errors))} for a response of another request first" if errors
                   else "the executor does not attribute it to the request it was made for")
            return (f"operation {i} {op}: {what} can be handed over - its request is alive and its qubit id free - but stays pending: {why}"), None
        if n.get("poll_faults"):
            ctx.count("hand_overs_that_failed_loudly", n.pop("poll_faults"))
        if isinstance(res, str) and res.startswith("fault-visible:"):
            return f"operation {i} {op}: {res.split(':', 1)[1]}", None
        if res == "refused":
            ctx.count("duplicate_registrations_refused")
        if isinstance(res, str) and res.startswith("fault") and op[0] in ("init", "stop"):
            return f"operation {i} {op}: {res} (registering / stopping an application must not fail)", None
        err = check_invariants(w, ctx, f"after operation {i} {op} -> {res}")
        if err:
            return err, None
        for (nn, a), snap in before.items():
            if a in w.nodes[nn]["active"]:
                now = snapshot_app(w.nodes[nn]["ex"], nn, a)
                if now != snap:
                    diff = [k for k in snap if snap[k] != now[k]]
                    return (f"operation {i} {op} changed application {a} on {nn} ({', '.join(diff)}): "
                            f"{ {k: (snap[k], now[k]) for k in diff} }"), None
        if op[0] == "stop" and res == "done":
            ctx.count("stops_checked")
            # nothing of the stopped application may stay behind - also no entanglement request it left outstanding (a subroutine
            # that returned without waiting, or failed): the next application registered under the id would inherit it
            ex = n["ex"]
            app = op[2]
            stale = [(k, len(q)) for tab in (ex._epr_recv_requests, ex._epr_create_requests) for k, q in tab.items()
                     if q and k[1] // 10 == app]
            if stale:
                ctx.fail({"kind": "walk", "ops": [list(o) for o in ops[:i + 1]]},
                         f"operation {i} {op}: after stop_application({app}) the controller still holds entanglement request(s) of that "
                         f"application on (remote, socket) {[k for k, _ in stale]}: the next application registered as {app} gets their "
                         f"pairs mapped into its unit module and their results written into its arrays", key=KF_STOP)
                # (the walk goes on from a clean state: the harness removes what the stop left behind)
                for tab in (ex._epr_recv_requests, ex._epr_create_requests):
                    for k, _ in stale:
                        if k in tab:
                            del tab[k][:]
                gone = [r for r in ex._pending_epr_responses if getattr(r, "purpose_id", -1) // 10 == app]
                mapped = {p for um in ex._qubit_unit_modules.values() for p in um if p is not None}
                for r in gone:
                    ex._pending_epr_responses.remove(r)
                    pos = getattr(r, "logical_qubit_id", None)
                    if pos is not None and pos not in mapped:
                        ex._used_physical_qubit_addresses.discard(pos)
                        ex.inflight_phys.discard(pos)
                n["requests"] = [(a, sck) for a, sck in n["requests"] if a != app]
                n["early"] = [sck for sck in n["early"] if sck // 10 != app]
        if sum(len(m["active"]) for m in w.nodes.values()) >= 2:
            multi = True
        states.add(abstract_state(w))
    return None, {"states": states, "multi": multi, "final": abstract_state(w)}


# ---- exploration ------------------------------------------------------------------------------------------------------

ALPHABET = ([("init", "n0", 0, 2), ("init", "n0", 1, 1), ("stop", "n0", 0), ("stop", "n0", 1)] +
            [("alloc", "n0", 0, 0), ("alloc", "n0", 0, 1), ("alloc", "n0", 1, 0), ("free", "n0", 0, 0), ("free", "n0", 0, 1), ("free", "n0", 1, 0)] +
            [("write", "n0", 0, 1), ("write", "n0", 1, 2), ("recv", "n0", 0, 0), ("recv", "n0", 1, 0), ("deliver", "n0"),
             ("init", "n1", 0, 1), ("alloc", "n1", 0, 0), ("write", "n1", 0, 1), ("stop", "n1", 0), ("early", "n0", 0, 0),
             ("alloc", "n0", 0, -1), ("free", "n0", 0, -1)])


INFLIGHT = [("recv", "n0", 0, 0), ("recv", "n0", 0, 1), ("recvf", "n0", 0, 0), ("recv", "n0", 1, 0), ("deliver", "n0"), ("write", "n0", 0, 1), ("write", "n0", 1, 2),
            ("early", "n0", 0, 1), ("stop", "n0", 0), ("init", "n0", 0, 2), ("alloc", "n0", 1, 0)]


def random_op(rng, profile="mixed"):
    node = rng.choice(["n0", "n0", "n1"])
    app = rng.randrange(3)
    if profile == "inflight":
        # several subroutines blocked in a wait at once, finishing in any order, while others start
        k = rng.choice(["init", "init", "stop", "alloc", "free", "write", "write", "recv", "recv", "recvf", "deliver", "deliver", "early"])
    else:
        k = rng.choice(["init", "stop", "alloc", "alloc", "free", "free", "write", "write", "recv", "deliver", "deliver", "early"] +
                       (["recvnw", "recvs"] if rng.random() < 0.15 else []))
    if k == "init":
        return ("init", node, app, rng.choice([1, 2, 3, 4]))
    if k in ("stop",):
        return (k, node, app)
    if k == "deliver":
        return (k, node)
    if k in ("alloc", "free") and rng.random() < 0.08:
        return (k, node, app, -rng.randrange(1, 5))     # negative virtual addresses index the unit module from its end
    return (k, node, app, rng.randrange(4) if k != "write" else rng.randrange(20))


def cases(ctx):
    rng = ctx.rng
    depth = 5 if ctx.quick else 7
    if True:
        yield {"kind": "search", "depth": depth, "shard": ctx.shard, "nshards": ctx.nshards}
        # second search: two registered applications, alphabet of subroutines that block and finish in any order
        yield {"kind": "search", "depth": depth, "shard": ctx.shard, "nshards": ctx.nshards, "alphabet": "inflight"}
    for _ in range(ctx.n(60, 3000)):
        n = 150 if ctx.quick else 500
        profile = rng.choice(["mixed", "inflight"])
        yield {"kind": "walk", "ops": [list(random_op(rng, profile)) for _ in range(n)]}
    for _ in range(ctx.n(40, 2000)):
        yield {"kind": "sdk-walk", "steps": rng.choice([30, 60]), "seed": rng.randrange(2**31)}
    # documented witness: stop then re-register the same id on the same controller
    if ctx.shard == 0:
        for apps in ([0, 1], [1, 0], [2, 0, 1], [1, 2]):
            for v in (0, 1):
                yield {"kind": "same-program", "apps": apps, "v": v}
        for before in (0, 40000, 2**31):
            for between in (2**8, 2**15, 2**16, 2**31, 2**32):
                yield {"kind": "long-uptime", "before": before, "between": between}
        yield {"kind": "walk", "ops": [["init", "n0", 0, 2], ["alloc", "n0", 0, 1], ["write", "n0", 0, 3], ["stop", "n0", 0],
                                       ["init", "n0", 0, 2], ["alloc", "n0", 0, 1], ["stop", "n0", 0], ["init", "n0", 0, 1]]}
        # responses whose hand-over fails loudly: (a) the qubit is mapped, then storing the information fails - the response
        # must not be replayed into the next request of that socket; (b) the request names a qubit outside the unit module /
        # outlived its subroutine - the other application's pair must still arrive
        yield {"kind": "walk", "ops": [["init", "n0", 0, 3], ["recvs", "n0", 0, 0], ["deliver", "n0"], ["recvs", "n0", 0, 1], ["deliver", "n0"],
                                       ["alloc", "n0", 0, 2], ["stop", "n0", 0], ["init", "n0", 0, 1]]}
        yield {"kind": "walk", "ops": [["init", "n0", 0, 2], ["init", "n0", 1, 1], ["recv", "n0", 0, 3], ["recv", "n0", 1, 0], ["deliver", "n0"],
                                       ["deliver", "n0"], ["write", "n0", 1, 1], ["stop", "n0", 1], ["init", "n0", 1, 2]]}
        yield {"kind": "walk", "ops": [["init", "n0", 0, 1], ["init", "n0", 1, 1], ["recvnw", "n0", 0, 0], ["recv", "n0", 1, 0], ["deliver", "n0"],
                                       ["deliver", "n0"], ["write", "n0", 1, 1], ["stop", "n0", 0], ["early", "n0", 1, 0], ["recv", "n0", 1, 0]]}


def _same_program(ctx, case):
    """Several applications of one node run the SAME program (byte-identical instructions: same socket, same qubit id, same
    arrays - instances of one application class) and are suspended in its wait at the same time. The pairs arrive one by one:
    pair j belongs to the j-th application that asked, and to nobody else."""
    _state["viol"] = None
    w = World()
    n = w.nodes["n0"]
    ex = n["ex"]
    apps, v = case["apps"], case["v"]
    for a in sorted(apps):
        do_op(w, ("init", "n0", a, 2))
    text = f"array 10 @5\narray 1 @6\nstore {v} @6[0]\nrecv_epr(9,77) 6 5\nwait_all @5[0:10]\nret_arr @5\n"
    for a in apps:
        r = w.send("n0", sub_msg(a, text), a)
        if r != "blocked":
            ctx.fail(case, f"same program sent by applications {apps}: the subroutine of application {a} ends as {r} instead of waiting for its pair")
            return ctx.case(case, True)
        n["requests"].append((a, 77))
    for j, a in enumerate(apps):
        before = {b: snapshot_app(ex, "n0", b) for b in apps if b != a}
        res = w.deliver_keep("n0")
        ctx.count("same_program_deliveries")
        where = f"same program sent by applications {apps} (all waiting), pair {j} delivered -> {res}"
        err = _state["viol"] or check_invariants(w, ctx, where)
        if err:
            ctx.fail(case, f"{where}: {err}" if err is _state["viol"] else err)
            return ctx.case(case, True)
        mine = snapshot_app(ex, "n0", a)
        got = mine["arrays"].get(5)
        if mine["unit"][v] is None or got is None or any(x is None for x in got):
            ctx.fail(case, f"{where}: the pair belongs to application {a} (the {j}-th to ask), whose virtual qubit {v} is "
                           f"{'mapped' if mine['unit'][v] is not None else 'NOT mapped'} and whose result array is {got}")
            return ctx.case(case, True)
        for b, snap in before.items():
            now = snapshot_app(ex, "n0", b)
            if now != snap:
                diff = [k for k in snap if snap[k] != now[k]]
                ctx.fail(case, f"{where}: the pair belongs to application {a}, but application {b} changed ({', '.join(diff)}): "
                               f"{ {k: (snap[k], now[k]) for k in diff} }")
                return ctx.case(case, True)
    ctx.case(case, True)


def _long_uptime(ctx, case):
    """A controller that has been up for a long time: an application waits for its pair while 65536 other subroutines come and go
    (the run is not replayed - the subroutine counter is moved on by that many, which is all those subroutines leave behind); the
    pair still belongs to the application that asked for it."""
    _state["viol"] = None
    w = World()
    n = w.nodes["n0"]
    ex = n["ex"]
    if not isinstance(getattr(ex, "_next_subroutine_id", None), int):
        ctx.count("long_uptime_not_applicable")
        return ctx.case(case, False)
    do_op(w, ("init", "n0", 0, 2))
    do_op(w, ("init", "n0", 1, 2))
    ex._next_subroutine_id += case["before"]
    r = do_op(w, ("recv", "n0", 0, 0))
    if r != "blocked":
        ctx.fail(case, f"long uptime: the receiving subroutine of application 0 ends as {r} instead of waiting")
        return ctx.case(case, True)
    ex._next_subroutine_id += case["between"] - 3
    for j in range(3):
        do_op(w, ("write", "n0", 1, j))
    r1 = do_op(w, ("recv", "n0", 1, 1))
    before = snapshot_app(ex, "n0", 1)
    res = w.deliver_keep("n0")
    ctx.count("long_uptime_deliveries")
    err = _state["viol"] or check_invariants(w, ctx, f"long uptime ({case['between']} subroutines while application 0 waits), delivery -> {res}")
    mine = snapshot_app(ex, "n0", 0)
    if not err and (mine["unit"][0] is None or any(x is None for x in (mine["arrays"].get(5) or [None]))):
        err = (f"long uptime: {case['between']} subroutines ran while application 0 waited for its pair; the pair was delivered ({res}) and "
               f"application 0's qubit is {'mapped' if mine['unit'][0] is not None else 'NOT mapped'}, its result array {mine['arrays'].get(5)}")
    if not err and snapshot_app(ex, "n0", 1) != before:
        err = f"long uptime: the pair of application 0 changed application 1 (waiting for its own pair: {r1})"
    if err:
        ctx.fail(case, err)
    ctx.case(case, True)


def _sdk_walk(ctx, case):
    """Host side of the same property: SDK connections of one party are opened and closed in any order (not only nested)
    on one controller, with explicit and automatic application ids, and allocate / free / write in between.  The
    controller-level invariants are evaluated after every host step; an application's state may only change by its own steps."""
    from netqasm.sdk.qubit import Qubit
    from vf.harness.pipeline import Pipe
    r = random.Random(case["seed"])
    p = Pipe(max_qubits=3)
    ex = p.ex
    conns = {0: {"conn": p.conn, "qs": [], "max": 3}}       # slot -> connection and the qubits it holds
    nxt = 1
    hist = []

    class W:                                      # the shape check_invariants expects
        nodes = {"alice": {"ex": ex, "active": {}}}
    try:
        for step in range(case["steps"]):
            k = r.choice(["open", "open", "close", "alloc", "alloc", "free", "write", "flush"])
            slot = r.choice(sorted(conns)) if conns else None
            target = None
            before = {c["conn"].app_id: snapshot_app(ex, "alice", c["conn"].app_id) for c in conns.values()}
            if k == "open" and len(conns) < 3:
                explicit = None
                if r.random() < 0.25:
                    used_ids = {c["conn"].app_id for c in conns.values()}
                    explicit = r.choice([i for i in range(5) if i not in used_ids])
                mq = r.choice([1, 2, 3])
                conns[nxt] = {"conn": p.open(app_id=explicit, max_qubits=mq), "qs": [], "max": mq}
                hist.append(("open", nxt, conns[nxt]["conn"].app_id))
                target = conns[nxt]["conn"].app_id
                nxt += 1
                ctx.count("sdk_connections_opened")
            elif slot is None:
                continue
            elif k == "close":
                c = conns.pop(slot)
                target = c["conn"].app_id
                hist.append(("close", slot, target))
                c["conn"].close()
            else:
                c = conns[slot]
                target = c["conn"].app_id
                hist.append((k, slot, target))
                if k == "alloc" and len(c["qs"]) < c["max"]:
                    c["qs"].append(Qubit(c["conn"]))
                elif k == "free" and c["qs"]:
                    c["qs"].pop(r.randrange(len(c["qs"]))).measure()
                elif k == "write":
                    c["conn"].new_array(2, init_values=[100 * target + step, 1])
                c["conn"].flush()
            W.nodes["alice"]["active"] = {c["conn"].app_id: c["max"] for c in conns.values()}
            ids = [c["conn"].app_id for c in conns.values()]
            if len(set(ids)) != len(ids):
                return ctx.fail(case, f"host history {hist[-8:]}: two open connections of one party share application id {ids}")
            err = check_invariants(W, ctx, f"after host step {hist[-1] if hist else k}")
            if err:
                return ctx.fail(case, f"host history {hist[-8:]}: {err}")
            for a, snap in before.items():
                if a != target and a in W.nodes["alice"]["active"]:
                    now = snapshot_app(ex, "alice", a)
                    ctx.count("isolation_snapshots")
                    if now != snap:
                        diff = [x for x in snap if snap[x] != now[x]]
                        return ctx.fail(case, f"host history {hist[-8:]}: a step of application {target} changed application {a} ({', '.join(diff)})")
    except Exception as e:
        ctx.fail(case, f"host history {hist[-8:]}: {type(e).__name__}: {str(e)[:200]}")


def run_case(ctx, case):
    from vf.common import h64
    _state["ctx"] = ctx
    if case["kind"] == "sdk-walk":
        _state["viol"] = None
        _sdk_walk(ctx, case)
        return ctx.case(case, True)
    if case["kind"] == "long-uptime":
        return _long_uptime(ctx, case)
    if case["kind"] == "same-program":
        return _same_program(ctx, case)
    if case["kind"] == "walk":
        err, info = run_history(ctx, [tuple(o) for o in case["ops"]])
        if err:
            ctx.fail(case, err, key=(info or {}).get("key"))
            return ctx.case({"kind": "walk", "digest": f"{h64(case['ops']):016x}", "first": case["ops"][:8]}, True)
        ctx.count("abstract_states_in_walks", len(info["states"]))
        small = {"kind": "walk", "n": len(case["ops"]), "digest": f"{h64(case['ops']):016x}", "first": case["ops"][:8]}
        return ctx.case(small, info["multi"])
    # bounded search with state hashing: a sequence is extended only if it reached a new abstract state
    seen = set()
    frontier = [[]]
    total = 0
    alphabet = ALPHABET
    if case.get("alphabet") == "inflight":
        frontier = [[["init", "n0", 0, 2], ["init", "n0", 1, 1]]]
        alphabet = INFLIGHT
    for d in range(case["depth"]):
        nxt = []
        for seq in frontier:
            for j, op in enumerate(alphabet):
                cand = seq + [list(op)]
                if d == 0 and j % case["nshards"] != case["shard"]:
                    continue   # shard the search by its first operation
                err, info = run_history(ctx, [tuple(o) for o in cand])
                total += 1
                ctx.evaluations += 1
                hv = h64(cand)
                ctx.all_hashes.add(hv)
                if err:
                    ctx.fail({"kind": "walk", "ops": cand}, err, key=(info or {}).get("key"))
                    if ctx.too_many():
                        return ctx.case(case, True)
                    continue
                if info["multi"]:
                    ctx.nontrivial_hashes.add(hv)
                final = info["final"]
                if final not in seen:
                    seen.add(final)
                    nxt.append(cand)
        frontier = nxt
        if ctx.elapsed() > WALL_BUDGET[ctx.tier] * 0.7:
            ctx.exhaustive = False
            ctx.notes["search_stopped_at_depth"] = d + 1
            break
    ctx.count("search_sequences", total)
    ctx.count("search_states", len(seen))
    ctx.notes["states"] = ctx.notes.get("states", 0) + len(seen)
    ctx.case(case, True)


