"""C18 — thread sockets deliver every message once and in order under any schedule (controlled scheduler)."""
from __future__ import annotations

import gc
import random

from vf.harness import sched as vs

PID = "C18"
LEVEL = "exploration"
RULE = ("scenarios with 2-3 endpoints (threads), up to 4 sends/receives each: one-way queueing, both directions at once, "
        "callback delivery (use_callbacks=True) with the sender racing the receiver's connect, two socket ids between the "
        "same pair, structured messages, non-blocking receive on an empty channel, early close by the side that started "
        "first / second, and a 3-endpoint ThreadBroadcastChannel; every message carries a unique id. Schedules: the "
        "scheduler owns the interleaving at every statement of socket_hub.py / socket.py / broadcast_channel.py "
        "(sys.monitoring LINE events; sleep = forced yield on a virtual clock; the hub lock is scheduler-aware). "
        "quick: 300 random schedules per scenario (switch probability 0.02-0.3) + ALL schedules with <= 1 preemption "
        "(cap 1500 per scenario); thorough: random 6000 per scenario + all schedules with <= 2 preemptions (cap 60000). "
        "Oracle: per (direction, socket id) the receive history must be a duplicate-free, order-preserving prefix of the "
        "accepted sends; every message accepted while both ends were connected is delivered when the receiver performs "
        "enough receives or has a callback; an empty non-blocking receive raises instead of blocking or returning a "
        "message; both endpoints rendezvous in every start order."
        ' Plus free-running threads with 66 000 - 300 000 pending messages and a StructuredMessage object refilled and sent again. '
        ' Further scenarios: two receiving threads of one endpoint on one socket, non-blocking broadcast receives, three broadcast endpoints listing their remotes in cyclic order, an endpoint that gives up connecting (timeout 0) before its peer arrives, zero-length messages, a late starter with timeout 0. '
        " Two complete sessions on the same names one after the other. Own-process probe: a socket that is cyclic garbage is finalized by the collector k allocations into a recv / close / send of another socket (k swept), i.e. inside the hub\'s locked sections. Callback delivery on a broadcast channel (known finding). "
        "Non-trivial = the schedule contains a preemption inside "
        "a hub/socket method; distinct = distinct (scenario, choice list).")
ASSUMPTIONS = ["interleavings at statement granularity inside the thread-socket modules; finer (bytecode-level) interleavings are not explored",
               "unread messages of a closed socket that reach the next socket opened on the same key are not judged (each is still received exactly once); a failed connect attempt, however, must leave nothing behind",
               "timeouts are virtual (20 virtual seconds per blocking operation); a schedule that hits the step bound is inconclusive and counted"]
SHARDS = {"quick": 4, "thorough": 16}
MIN_COUNTERS = {"schedules": 1500, "preempted_schedules": 500, "yield_points": 100000}
MIN_NONTRIVIAL = {"quick": 500, "thorough": 20000}
WALL_BUDGET = {"quick": 150, "thorough": 2700}      # (a graceful stop: what was explored so far is reported; well below the watchdog)
TIMEOUT = 20.0
KF_CYCLE = "broadcast-channel:remotes-listed-in-cyclic-order-never-connect"


# ---- scenarios: per endpoint a script of operations -----------------------------------------------------------------
# ops: ("open", sock_name, remote, socket_id, use_callbacks) ("send", sock, id) ("sends", sock, id)  structured
#      ("recv", sock) blocking with timeout; ("recvs", sock) structured; ("recv_nb", sock) non-blocking
#      ("close", sock) ; ("pause", n) n forced yields ; ("bopen", name, [remotes]) ("bsend", id) ("brecv",)

def scenarios():
    S = {}
    S["queue-3"] = {"alice": [("open", "s", "bob", 0, False), ("send", "s", "a1"), ("send", "s", "a2"), ("send", "s", "a3")],
                    "bob": [("open", "s", "alice", 0, False), ("recv", "s"), ("recv", "s"), ("recv", "s")]}
    S["both-directions"] = {"alice": [("open", "s", "bob", 0, False), ("send", "s", "a1"), ("send", "s", "a2"), ("recv", "s"), ("recv", "s")],
                            "bob": [("open", "s", "alice", 0, False), ("send", "s", "b1"), ("recv", "s"), ("send", "s", "b2"), ("recv", "s")]}
    S["callback-receiver"] = {"alice": [("open", "s", "bob", 0, False), ("send", "s", "a1"), ("send", "s", "a2"), ("send", "s", "a3")],
                              "bob": [("open", "s", "alice", 0, True), ("pause", 3)]}
    S["storage-socket-receiver"] = {"alice": [("open", "s", "bob", 0, False), ("send", "s", "a1"), ("send", "s", "a2"), ("send", "s", "a3")],
                                    "bob": [("open", "s", "alice", 0, 3), ("pause", 3)]}
    S["callback-both"] = {"alice": [("open", "s", "bob", 0, True), ("send", "s", "a1"), ("send", "s", "a2")],
                          "bob": [("open", "s", "alice", 0, True), ("send", "s", "b1"), ("send", "s", "b2")]}
    S["two-socket-ids"] = {"alice": [("open", "s0", "bob", 0, False), ("open", "s1", "bob", 1, False), ("send", "s0", "a1"), ("send", "s1", "x1"),
                                     ("send", "s0", "a2"), ("send", "s1", "x2")],
                           "bob": [("open", "s0", "alice", 0, False), ("open", "s1", "alice", 1, False), ("recv", "s1"), ("recv", "s0"),
                                   ("recv", "s1"), ("recv", "s0")]}
    S["structured"] = {"alice": [("open", "s", "bob", 0, False), ("sends", "s", "a1"), ("sends", "s", "a2")],
                       "bob": [("open", "s", "alice", 0, False), ("recvs", "s"), ("recvs", "s")]}
    S["nonblocking-empty"] = {"alice": [("open", "s", "bob", 0, False), ("recv", "s"), ("send", "s", "a1")],
                              "bob": [("open", "s", "alice", 0, False), ("recv_nb", "s"), ("send", "s", "go"), ("recv", "s"), ("recv_nb", "s")]}
    S["early-close-first"] = {"alice": [("open", "s", "bob", 0, False), ("send", "s", "a1"), ("send", "s", "a2"), ("close", "s")],
                              "bob": [("pause", 2), ("open", "s", "alice", 0, False), ("recv", "s"), ("recv", "s")]}
    S["early-close-second"] = {"alice": [("open", "s", "bob", 0, False), ("recv", "s")],
                               "bob": [("pause", 2), ("open", "s", "alice", 0, False), ("send", "s", "b1"), ("close", "s")]}
    # a long run of queued messages (a receiver that does not drain the queue for a while)
    S["queue-40"] = {"alice": [("open", "s", "bob", 0, False)] + [("send", "s", f"a{i}") for i in range(40)],
                     "bob": [("open", "s", "alice", 0, False), ("pause", 2)] + [("recv", "s")] * 40}
    # a callback endpoint turns callbacks off, closes, and re-opens the same key as a plain socket
    S["reopen-after-callback"] = {"alice": [("open", "s", "bob", 0, False), ("recv", "s"), ("send", "s", "a1"), ("send", "s", "a2")],
                                  "bob": [("open", "s", "alice", 0, True), ("cb_off", "s"), ("close", "s"), ("open", "s2", "alice", 0, False),
                                          ("send", "s2", "go"), ("recv", "s2"), ("recv", "s2")]}
    # one StructuredMessage object refilled and sent three times
    S["structured-reused-object"] = {"alice": [("open", "s", "bob", 0, False), ("sends_reuse", "s", "a1"), ("sends_reuse", "s", "a2"), ("sends_reuse", "s", "a3")],
                                     "bob": [("open", "s", "alice", 0, False), ("recvs", "s"), ("recvs", "s"), ("recvs", "s")]}
    # the side that starts second connects with timeout 0 ("the peer must already be there"); if it was too early it connects normally
    S["late-starter-zero-timeout"] = {"alice": [("open", "s", "bob", 0, False), ("recv", "s")],
                                      "bob": [("pause", 4), ("open_t", "s", "alice", 0, 0.0), ("open", "s", "alice", 0, False), ("send", "s", "b1")]}
    # two receiving threads of ONE endpoint poll the same socket (a host with a worker thread): every message once, and an empty
    # poll reports emptiness whatever the other thread does
    S["two-receivers-one-socket"] = {"alice": [("open", "s", "bob", 0, False), ("send", "s", "a1"), ("send", "s", "a2"), ("send", "s", "a3")],
                                     "bob": [("open", "s", "alice", 0, False), ("recv_nb", "s"), ("recv_nb", "s"), ("recv_nb", "s")],
                                     "bob2": [("use", "s", "bob"), ("recv_nb", "s"), ("recv_nb", "s"), ("recv_nb", "s")]}
    # non-blocking broadcast receive: a broadcast that was completely sent before the poll started must be returned by it
    S["broadcast-nonblocking"] = {"alice": [("bopen", "c", ["bob"]), ("bsend", "a1"), ("bsend", "a2")],
                                  "bob": [("bopen", "c", ["alice"]), ("brecv",), ("pause", 3), ("brecv_nb",), ("brecv_nb",), ("brecv_nb",)]}
    # three broadcast endpoints that list their remotes in cyclic order
    S["broadcast-3-cyclic"] = {"alice": [("bopen", "c", ["bob", "charlie"]), ("bsend", "a1"), ("brecv",), ("brecv",)],
                               "bob": [("bopen", "c", ["charlie", "alice"]), ("bsend", "b1"), ("brecv",), ("brecv",)],
                               "charlie": [("bopen", "c", ["alice", "bob"]), ("bsend", "c1"), ("brecv",), ("brecv",)]}
    # an endpoint gives up connecting (timeout 0, peer absent) and never comes back: the peer must not "connect" to its ghost
    S["peer-gave-up"] = {"alice": [("open_t", "s", "bob", 0, 0.0)],
                         "bob": [("vsleep", 1.0), ("open", "s", "alice", 0, False), ("send", "s", "b1")]}
    # an endpoint that was going to receive through a callback gives up connecting (peer absent), then opens the same key as a
    # plain socket and receives the ordinary way
    # (alice starts on that key only after bob has told her, over another socket id, that he is past his first attempt: a peer
    # that arrives WHILE the other side is giving up talks to a ghost, which is the application's race, not the hub's)
    S["gave-up-with-callbacks-then-plain"] = {"alice": [("open", "sync", "bob", 1, False), ("recv", "sync"), ("open", "s", "bob", 0, False),
                                                        ("send", "s", "a1"), ("send", "s", "a2")],
                                              "bob": [("open_t", "s", "alice", 0, 0.0, True), ("open", "sync", "alice", 1, False), ("send", "sync", "go"),
                                                      ("open", "s", "alice", 0, False), ("recv", "s"), ("recv", "s")]}
    # a connect that timed out, a successful retry while the error of the first attempt is still held, then the error is let go:
    # the half-built socket of the first attempt is finalized while the second one is in use - which stays connected
    S["retry-while-the-timeout-error-is-held"] = {
        "alice": [("open", "sync", "bob", 1, False), ("recv", "sync"), ("open", "s", "bob", 0, False), ("recv", "s"), ("send", "s", "a1"), ("send", "s", "a2")],
        "bob": [("open_t", "s", "alice", 0, 0.0, False, True), ("open", "sync", "alice", 1, False), ("send", "sync", "go"),
                ("open", "s", "alice", 0, False), ("drop_error",), ("send", "s", "b1"), ("recv", "s"), ("recv", "s")]}
    # a complete session: both sides open, talk, close
    S["open-talk-close"] = {"alice": [("open", "s", "bob", 0, False), ("recv", "s"), ("close", "s")],
                            "bob": [("open", "s", "alice", 0, False), ("send", "s", "b1"), ("close", "s")]}
    # sockets that log their communication; messages that end in / consist of the marker the log trims ("EOF")
    S["logged-sockets-eof-messages"] = {"alice": [("open_log", "s", "bob", 0, False), ("send", "s", "0110EOF"), ("send", "s", "EOF"), ("send", "s", "a3")],
                                        "bob": [("open_log", "s", "alice", 0, False), ("recv", "s"), ("recv", "s"), ("recv", "s"), ("recv_nb", "s"),
                                                ("recv_nb", "s")]}
    # receives with a zero timeout ("what is there, without waiting"): nothing is lost behind a TimeoutError
    S["receive-with-zero-timeout"] = {"alice": [("open", "s", "bob", 0, False), ("send", "s", "a1"), ("send", "s", "a2"), ("send", "s", "a3")],
                                      "bob": [("open", "s", "alice", 0, False), ("recv_t0", "s"), ("pause", 2), ("recv_t0", "s"), ("recv_t0", "s"),
                                              ("pause", 3), ("recv_nb", "s"), ("recv_t0", "s"), ("recv_nb", "s")]}
    # two complete sessions on the same names, one after the other: every close regular and in time
    # (bob starts his second round only after alice has answered in the first one: her first socket is connected by then, so it
    # is her SECOND socket that has no peer yet when bob's second socket arrives or has come and gone)
    S["two-rounds-same-names"] = {"alice": [("open", "s", "bob", 0, False), ("recv", "s"), ("send", "s", "a1"), ("close", "s"),
                                            ("open", "t", "bob", 0, False), ("recv", "t"), ("close", "t")],
                                  "bob": [("open", "s", "alice", 0, False), ("send", "s", "b1"), ("recv", "s"), ("close", "s"),
                                          ("open", "t", "alice", 0, False), ("send", "t", "b2"), ("close", "t")]}
    # a callback endpoint whose connection-lost callback uses its own socket
    S["callback-uses-socket-on-connection-loss"] = {"alice": [("open", "s", "bob", 0, False), ("send", "s", "a1"), ("close", "s")],
                                                    "bob": [("open", "s", "alice", 0, 2), ("pause", 4)]}
    # messages of length zero are messages too
    S["empty-message"] = {"alice": [("open", "s", "bob", 0, False), ("send", "s", ""), ("send", "s", "a2")],
                          "bob": [("open", "s", "alice", 0, False), ("recv", "s"), ("recv", "s"), ("recv_nb", "s")]}
    S["broadcast-empty-message"] = {"alice": [("bopen", "c", ["bob", "charlie"]), ("bsend_raw", ""), ("bsend", "a2")],
                                    "bob": [("bopen", "c", ["alice", "charlie"]), ("brecv",), ("brecv",)],
                                    "charlie": [("bopen", "c", ["alice", "bob"]), ("brecv",), ("brecv",)]}
    S["broadcast-3"] = {"alice": [("bopen", "c", ["bob", "charlie"]), ("bsend", "a1"), ("brecv",), ("brecv",)],
                        "bob": [("bopen", "c", ["alice", "charlie"]), ("bsend", "b1"), ("brecv",), ("brecv",)],
                        "charlie": [("bopen", "c", ["alice", "bob"]), ("bsend", "c1"), ("brecv",), ("brecv",)]}
    return S


class Endpoint:
    def __init__(self, name, script, s: vs.Scheduler, keep, shared=None):
        self.name, self.script, self.s, self.keep = name, script, s, keep
        self.socks = {}
        self.chan = None
        self.shared = shared if shared is not None else {}     # (owner endpoint, socket name) -> socket object
        self.alias = None      # a second thread of the same endpoint records its operations under the owner's name

    def body(self):
        from netqasm.sdk.classical_communication.message import StructuredMessage
        from netqasm.sdk.classical_communication.thread_socket.broadcast_channel import ThreadBroadcastChannel
        from netqasm.sdk.classical_communication.thread_socket.socket import ThreadSocket
        s = self.s
        me = self.name
        for op in self.script:
            k = op[0]
            if k == "use":
                # a second thread of endpoint op[2] working on that endpoint's socket op[1]
                _, sn, owner = op
                while (owner, sn) not in self.shared:
                    s.forced_yield()
                self.socks[sn] = self.shared[(owner, sn)]
                self.alias = owner
                me = owner
                continue
            if k == "brecv_nb":
                s.record(("call", me, "brecv_nb"))
                try:
                    # (every other poll also passes a timeout: "do not block" wins, an empty channel is reported at once)
                    self.nb_bcalls = getattr(self, "nb_bcalls", 0) + 1
                    frm, msg = self.chan.recv(block=False, timeout=5.0) if self.nb_bcalls % 2 == 0 else self.chan.recv(block=False)
                    s.record(("ret", me, "brecv_nb", frm, msg))
                except BaseException as e:
                    if isinstance(e, (vs.SchedBound, vs.SchedDeadlock)):
                        raise
                    s.record(("ret", me, "brecv_nb", None, f"!{type(e).__name__}"))
                continue
            if k == "pause":
                for _ in range(op[1]):
                    s.forced_yield()
                continue
            if k == "vsleep":
                s.vsleep(op[1])       # the host does something else for a while (virtual time passes)
                continue
            if k in ("open", "open_log"):
                _, sn, remote, sid, cb = op
                if sn in self.socks:
                    continue
                s.record(("call", me, "open", sn, remote, sid, cb))
                try:
                    cls = _storage_class(s, me, sn) if cb == 3 else _callback_class(s, me, sn, active=(cb == 2)) if cb else ThreadSocket
                    kw = {}
                    if k == "open_log":
                        # a socket that logs its classical communication (entries are kept in memory; nothing is written unless the
                        # application saves its loggers)
                        from netqasm.sdk.config import LogConfig
                        kw["log_config"] = LogConfig(comm_log_dir="/nonexistent/vf-comm-log")
                    sock = cls(me, remote, socket_id=sid, timeout=TIMEOUT, use_callbacks=cb, **kw) if not cb else cls(me, remote, socket_id=sid, timeout=TIMEOUT, **kw)
                    self.socks[sn] = sock
                    self.shared[(me, sn)] = sock
                    self.keep.append(sock)
                    s.record(("ret", me, "open", sn, "ok"))
                except BaseException as e:
                    if isinstance(e, (vs.SchedBound, vs.SchedDeadlock)):
                        raise
                    s.record(("ret", me, "open", sn, f"{type(e).__name__}"))
                    return
                continue
            if k == "open_t":
                # connect with a given (small) timeout; whether the peer is already waiting is observed at the call
                _, sn, remote, sid, tmo = op[:5]
                if sn in self.socks:
                    continue
                import netqasm.sdk.classical_communication.thread_socket.socket_hub as hubmod
                present = (remote, me, sid) in getattr(hubmod._socket_hub, "_open_sockets", ())
                s.record(("call", me, "open_t", sn, remote, sid, tmo))
                try:
                    if len(op) > 5 and op[5]:
                        # the endpoint that gives up was going to receive through a callback
                        sock = _callback_class(s, me, sn, active=False)(me, remote, socket_id=sid, timeout=tmo)
                    else:
                        sock = ThreadSocket(me, remote, socket_id=sid, timeout=tmo)
                    self.socks[sn] = sock
                    self.keep.append(sock)
                    s.record(("ret", me, "open_t", sn, "ok", present))
                except BaseException as e:
                    if isinstance(e, (vs.SchedBound, vs.SchedDeadlock)):
                        raise
                    s.record(("ret", me, "open_t", sn, f"{type(e).__name__}", present))
                    if len(op) > 6 and op[6]:
                        # the application holds on to the error for a while (it retries inside its except block, it logs the
                        # error later): the half-built socket of the failed attempt lives as long as the traceback does
                        self.kept_error = e
                continue
            if k == "drop_error":
                import gc
                self.kept_error = None
                gc.collect()
                continue
            if k == "bopen":
                s.record(("call", me, "bopen"))
                try:
                    self.chan = ThreadBroadcastChannel(me, op[2], timeout=TIMEOUT)
                    self.keep.append(self.chan)
                    s.record(("ret", me, "bopen", "ok"))
                except BaseException as e:
                    if isinstance(e, (vs.SchedBound, vs.SchedDeadlock)):
                        raise
                    s.record(("ret", me, "bopen", f"{type(e).__name__}"))
                    return
                continue
            if k == "bsend_raw":
                s.record(("call", me, "bsend", op[1]))
                try:
                    self.chan.send(op[1])
                    s.record(("ret", me, "bsend", op[1], "raw", "ok"))
                except BaseException as e:
                    if isinstance(e, (vs.SchedBound, vs.SchedDeadlock)):
                        raise
                    s.record(("ret", me, "bsend", op[1], "raw", f"{type(e).__name__}"))
                continue
            if k == "bsend":
                s.record(("call", me, "bsend", op[1]))
                try:
                    self.chan.send(f"{me}:{op[1]}")
                    s.record(("ret", me, "bsend", op[1], "ok"))
                except BaseException as e:
                    if isinstance(e, (vs.SchedBound, vs.SchedDeadlock)):
                        raise
                    s.record(("ret", me, "bsend", op[1], f"{type(e).__name__}"))
                continue
            if k == "brecv":
                s.record(("call", me, "brecv"))
                try:
                    frm, msg = self.chan.recv(block=True, timeout=TIMEOUT)
                    s.record(("ret", me, "brecv", frm, msg))
                except BaseException as e:
                    if isinstance(e, (vs.SchedBound, vs.SchedDeadlock)):
                        raise
                    s.record(("ret", me, "brecv", None, f"!{type(e).__name__}"))
                continue
            sock = self.socks.get(op[1])
            if sock is None:
                continue
            sid = sock.id
            if k in ("send", "sends", "sends_reuse"):
                s.record(("call", me, "send", sock.remote_app_name, sid, op[2]))
                try:
                    if k == "send":
                        sock.send(op[2])
                    elif k == "sends_reuse":
                        # one message object, refilled and sent again (a sender loop that reuses its buffer)
                        if getattr(self, "msgobj", None) is None:
                            self.msgobj = StructuredMessage(header="h", payload=op[2])
                        else:
                            self.msgobj.payload = op[2]
                        sock.send_structured(self.msgobj)
                    else:
                        sock.send_structured(StructuredMessage(header="h-" + op[2], payload=op[2]))
                    s.record(("ret", me, "send", sock.remote_app_name, sid, op[2], "ok"))
                except BaseException as e:
                    if isinstance(e, (vs.SchedBound, vs.SchedDeadlock)):
                        raise
                    s.record(("ret", me, "send", sock.remote_app_name, sid, op[2], f"{type(e).__name__}"))
            elif k in ("recv", "recvs", "recv_nb", "recv_t0"):
                s.record(("call", me, k, sock.remote_app_name, sid))
                t0 = s.sleep_calls.get(me, 0)
                try:
                    if k == "recv":
                        msg = sock.recv(block=True, timeout=TIMEOUT)
                    elif k == "recv_t0":
                        msg = sock.recv(block=True, timeout=0.0)      # "give me what is there, do not wait"
                    elif k == "recvs":
                        m = sock.recv_structured(block=True, timeout=TIMEOUT)
                        msg = m.payload if hasattr(m, "payload") else _payload_of(m)
                    else:
                        # (every other time with a timeout given as well: a non-blocking receive does not wait whatever else is passed)
                        self.nb_calls = getattr(self, "nb_calls", 0) + 1
                        msg = sock.recv(block=False, timeout=5.0) if self.nb_calls % 2 == 0 else sock.recv(block=False)
                    s.record(("ret", me, k, sock.remote_app_name, sid, msg, s.sleep_calls.get(me, 0) - t0))
                except BaseException as e:
                    if isinstance(e, (vs.SchedBound, vs.SchedDeadlock)):
                        raise
                    s.record(("ret", me, k, sock.remote_app_name, sid, f"!{type(e).__name__}", s.sleep_calls.get(me, 0) - t0))
            elif k == "cb_off":
                sock.use_callbacks = False
            elif k == "close":
                s.record(("call", me, "close", op[1]))
                sock._SOCKET_HUB.disconnect(sock)
                s.record(("ret", me, "close", op[1]))


def _payload_of(m):
    import json
    if isinstance(m, str):
        try:
            return json.loads(m).get("payload")
        except Exception:
            return m
    return m


def _storage_class(s, me, sn):
    """The package's own callback socket (StorageThreadSocket keeps every incoming message); the subclass only reports to the log."""
    from netqasm.sdk.classical_communication.thread_socket.socket import StorageThreadSocket

    class ST(StorageThreadSocket):
        def recv_callback(self, msg):
            super().recv_callback(msg)
            s.record(("callback", me, sn, self.remote_app_name, self.id, msg))

        def conn_lost_callback(self):
            s.record(("conn_lost", me, sn))
    return ST


def _callback_class(s, me, sn, active=False):
    from netqasm.sdk.classical_communication.thread_socket.socket import ThreadSocket

    class CB(ThreadSocket):
        def __init__(self, app_name, remote_app_name, **kw):
            super().__init__(app_name, remote_app_name, use_callbacks=True, **kw)

        def recv_callback(self, msg):
            s.record(("callback", me, sn, self.remote_app_name, self.id, msg))

        def conn_lost_callback(self):
            s.record(("conn_lost", me, sn))
            if active:
                # a callback endpoint looks at its own socket when it learns that the peer has left
                try:
                    self.recv(block=False)
                except RuntimeError:
                    pass
                s.record(("conn_lost_handled", me, sn))
    return CB


# ---- one schedule ----------------------------------------------------------------------------------------------------

def run_schedule(script, chooser, step_bound=6000):
    if any(op[0] == "bopen" for ops in script.values() for op in ops):
        step_bound = 20000     # the broadcast receive is a busy poll over all sockets: a lost message shows as a (virtual) timeout
    s = vs.Scheduler(chooser, step_bound=step_bound)
    keep = []
    vs.install(s)
    try:
        shared = {}
        for name, ops in script.items():
            s.spawn(name, Endpoint(name, ops, s, keep, shared).body)
        s.run()
        import netqasm.sdk.classical_communication.thread_socket.socket_hub as hubmod
        s.hub_end = (sorted(getattr(hubmod._socket_hub, "_open_sockets", ())), sorted(getattr(hubmod._socket_hub, "_remote_sockets", ())))
    finally:
        vs._installed["sched"] = None
    # Sockets die outside the schedule. Their __del__ disconnects *by key* on the global hub, and the same keys are used
    # by the next schedule, so a late garbage collection would corrupt a later run: detach them from the hub first.
    for obj in keep:
        for sock in (list(getattr(obj, "_sockets", {}).values()) or [obj]):
            sock.__dict__["_SOCKET_HUB"] = _DeadHub()
    keep.clear()
    s.bodies.clear()
    return s


class _DeadHub:
    def is_connected(self, socket):
        return False

    def disconnect(self, socket):
        return None


def judge(script, s: vs.Scheduler):
    """Returns error string or None. History checker over s.log."""
    if s.aborted == "deadlock on the hub lock":
        return ("every endpoint that is left is blocked on the hub's lock (a thread waits for a lock it already holds: a hub "
                "method was entered again from inside a locked region, e.g. from a connection-lost callback)")
    if s.aborted:
        return None   # inconclusive, counted by the caller
    for name, e in s.errors.items():
        return f"endpoint {name} crashed with {type(e).__name__}: {e}"
    log = s.log
    # after every socket that was opened has been closed again by its endpoint, the hub must not remember any of them (a key
    # left behind is found by the next socket opened towards it, which then "connects" to nobody)
    opened = [(ev[1], ev[3]) for ev in log if ev[0] == "ret" and ev[2] in ("open", "open_t") and ev[4] == "ok"]
    closed = [(ev[1], ev[3]) for ev in log if ev[0] == "ret" and ev[2] == "close"]
    if opened and sorted(opened) == sorted(closed) and not any(op[0] in ("bopen", "use") for ops in script.values() for op in ops):
        left = getattr(s, "hub_end", ((), ()))
        # (a key that an endpoint opens more than once: a socket of the second round may get connected to the peer's socket of the
        # first round that is still open; the peer's second socket then comes and goes without a remote socket noticing it, and
        # its rendezvous mark says exactly that - only the list of open sockets must be empty then)
        keys = [(name, op[2], op[3]) for name, ops in script.items() for op in ops if op[0] in ("open", "open_t", "open_log")]
        once = len(set(keys)) == len(keys)
        if left[0] or (left[1] and once):
            return (f"every socket was opened and closed again by its endpoint, yet the hub still lists open sockets {left[0]} and "
                    f"rendezvous marks {left[1]}")
    # rendezvous with a zero / small connect timeout: a peer that is already waiting must be found
    for ev in log:
        if ev[0] == "ret" and ev[2] == "open_t" and ev[4] != "ok" and ev[5]:
            return (f"endpoint {ev[1]} connecting with a small timeout failed ({ev[4]}) although its peer had already opened its side "
                    f"and was waiting")
    # an endpoint whose only connect attempt failed (it gave up and left) is not there: its peer's connect must not report success
    gave_up = {ev[1] for ev in log if ev[0] == "ret" and ev[2] == "open_t" and ev[4] != "ok" and not ev[5]}
    gave_up -= {ev[1] for ev in log if ev[0] == "ret" and ev[2] in ("open", "open_t") and ev[4] == "ok"}
    for i, ev in enumerate(log):
        if ev[0] == "ret" and ev[2] == "open" and ev[-1] == "ok":
            call = next(e for e in reversed(log[:i]) if e[0] == "call" and e[1] == ev[1] and e[2] == "open" and e[3] == ev[3])
            peer = call[4]
            if peer in gave_up:
                j = next(k for k, e in enumerate(log) if e[0] == "ret" and e[1] == peer and e[2] == "open_t")
                ci = next(k for k, e in enumerate(log) if e is call)
                if j < ci:
                    return (f"endpoint {ev[1]} 'connected' to {peer}, whose only connect attempt had failed with a timeout before {ev[1]} "
                            f"even started: it found the mark the failed attempt left behind")
    # rendezvous
    cyclic = all(any(op[0] == "bopen" for op in ops) for ops in script.values()) and len(script) == 3 and \
        [ops[0][2][0] for ops in script.values() if ops and ops[0][0] == "bopen"] == [list(script)[(i + 1) % 3] for i in range(3)]
    for ev in log:
        if ev[0] == "ret" and ev[2] in ("open", "bopen") and ev[-1] != "ok":
            if ev[2] == "open" and any(e[0] == "call" and e[1] == ev[1] and e[2] == "open" and e[3] == ev[3] and e[4] in gave_up for e in log):
                continue      # its peer gave up earlier: failing to connect is the right answer
            if cyclic and ev[2] == "bopen" and ev[-1] == "TimeoutError":
                return "KF:broadcast-cyclic|" + (f"broadcast endpoint {ev[1]} failed to connect ({ev[-1]}): the three endpoints list their remotes in "
                                                   f"cyclic order and each constructor waits for its first remote before announcing itself to the second")
            return f"endpoint {ev[1]} failed to connect ({ev[-1]}) although its peer connects in this scenario"
    sends = {}       # (sender, receiver, sid) -> [ids accepted]
    recvs = {}       # (receiver, sender, sid) -> [ids received]
    cb_keys = set()
    for ev in log:
        if ev[0] == "call" and ev[2] == "open" and ev[6]:
            cb_keys.add(ev[1])
    open_ok = {}     # endpoint -> index in log where it opened
    closed_at = {}
    for i, ev in enumerate(log):
        if ev[0] == "ret" and ev[2] == "open":
            open_ok.setdefault(ev[1], i)
        if ev[0] == "call" and ev[2] == "close":
            closed_at.setdefault(ev[1], i)
    nb_violation = None
    owed = {}
    for i, ev in enumerate(log):
        if ev[0] == "ret" and ev[2] == "send":
            _, me, _, remote, sid, mid, res = ev
            if res == "ok":
                sends.setdefault((me, remote, sid), []).append(mid)
            elif res == "ConnectionError":
                # refusing is legitimate only when the peer is not connected (yet / any more): not when both endpoints had
                # opened this socket id before the send was called and neither of them has closed anything
                ci = next((j for j in range(i, -1, -1) if log[j][:3] == ("call", me, "send") and log[j][3:6] == (remote, sid, mid)), i)
                names = {}
                for e in log[:ci]:
                    if e[0] == "call" and e[2] in ("open", "open_log"):
                        names[(e[1], e[3])] = (e[4], e[5])
                both = {(e[1],) + names.get((e[1], e[3]), (None, None)) for e in log[:ci] if e[0] == "ret" and e[2] in ("open", "open_log") and e[4] == "ok"}
                if (me, remote, sid) in both and (remote, me, sid) in both and not any(e[0] == "call" and e[2] == "close" and e[1] in (me, remote) for e in log[:ci]):
                    return (f"send of {mid!r} by {me} to {remote} (socket id {sid}) was refused with ConnectionError although both ends had "
                            f"opened that socket and neither had closed it")
            else:
                return f"send of {mid} by {me} raised {res}"
        elif ev[0] == "call" and ev[2] in ("recv_nb", "recv_t0"):
            _, me, kind, remote, sid = ev
            owed[me] = len(sends.get((remote, me, sid), [])) - len([g for g in recvs.get((me, remote, sid), []) if not (isinstance(g, str) and g.startswith("!"))])
        elif ev[0] == "ret" and ev[2] in ("recv", "recvs", "recv_nb", "recv_t0"):
            _, me, kind, remote, sid, msg, dt = ev
            if isinstance(msg, str) and msg.startswith("!"):
                if kind in ("recv_nb", "recv_t0"):
                    empty = "!RuntimeError" if kind == "recv_nb" else "!TimeoutError"
                    if msg != empty:
                        return f"{'non-blocking' if kind == 'recv_nb' else 'zero-timeout'} receive of {me} raised {msg[1:]} instead of reporting emptiness"
                    if dt > 0 and kind == "recv_nb":
                        return f"non-blocking receive of {me} slept {dt} time(s) instead of returning at once"
                    if owed.get(me, 0) > 0 and me not in {op[2] for ops in script.values() for op in ops if op[0] == "use"} \
                            and me not in cb_keys:
                        return (f"{'non-blocking' if kind == 'recv_nb' else 'zero-timeout'} receive of {me} reported an empty channel although "
                                f"{owed[me]} message(s) from {remote} had been completely sent before it started and were not yet received")
                    continue
                recvs.setdefault((me, remote, sid), []).append(msg)
            else:
                recvs.setdefault((me, remote, sid), []).append(msg)
        elif ev[0] == "callback":
            _, me, sn, remote, sid, msg = ev
            if any(e[0] == "ret" and e[1] == me and e[2] == "close" and e[3] == sn for e in log[:i]):
                return (f"message {msg!r} from {remote} was handed to the callback of {me}'s socket {sn!r} after that socket had been "
                        f"closed (a newer socket on the same key never receives it)")
            recvs.setdefault((me, remote, sid), []).append(_payload_of(msg) if not isinstance(msg, str) else msg)
    # exactly once, in order, per direction and socket id
    multi_rcv = {op[2] for ops in script.values() for op in ops if op[0] == "use"}     # endpoints with two receiving threads
    for (rcv, snd, sid), got in recvs.items():
        sent = sends.get((snd, rcv, sid), [])
        clean = [g for g in got if not (isinstance(g, str) and g.startswith("!"))]
        if rcv in multi_rcv:
            # the two threads' returns are not ordered with respect to each other: exactly once, nothing foreign
            if len(set(clean)) != len(clean) or not set(clean) <= set(sent):
                return f"the two receiving threads of {rcv} got {clean} from {snd} on socket id {sid}, but {snd} sent {sent} (duplicate or foreign message)"
            continue
        if clean != sent[:len(clean)]:
            return (f"{rcv} received {clean} from {snd} on socket id {sid}, but {snd} sent {sent} "
                    f"(duplicate, reordered, foreign or stale message)")
    # every accepted message is delivered when the receiver performs enough receives / has a callback
    for (snd, rcv, sid), sent in sends.items():
        got = recvs.get((rcv, snd, sid), [])
        clean = [g for g in got if not (isinstance(g, str) and g.startswith("!"))]
        n_recv_ops = sum(1 for op in script.get(rcv, []) if op[0] in ("recv", "recvs") )
        planned = [op for op in script.get(rcv, []) if op[0] in ("recv", "recvs") and _sock_id(script, rcv, op[1]) == sid
                   and _sock_remote(script, rcv, op[1]) == snd]
        if rcv in cb_keys:
            if clean != sent:
                return f"{snd} sent {sent} to callback endpoint {rcv} (socket id {sid}) but its callback got {clean}: message lost"
        else:
            want = sent[:len(planned)]
            if clean[:len(want)] != want:
                timeouts = [g for g in got if isinstance(g, str) and g.startswith("!")]
                return (f"{rcv} performed {len(planned)} blocking receives from {snd} (socket id {sid}); {snd} sent {sent}; received {clean}"
                        f"{' errors ' + str(timeouts) if timeouts else ''}: message lost or receive timed out")
    # broadcast: every broadcast received exactly once by every remote, per-sender order kept
    bsent = {}
    brecv = {}
    for ev in log:
        if ev[0] == "ret" and ev[2] == "bsend" and ev[-1] == "ok":
            bsent.setdefault(ev[1], []).append(ev[3] if len(ev) == 6 else f"{ev[1]}:{ev[3]}")
        if ev[0] == "ret" and ev[2] == "brecv":
            if ev[3] is None:
                return f"broadcast receive of {ev[1]} failed with {ev[4][1:]}"
            brecv.setdefault(ev[1], []).append((ev[3], ev[4]))
        if ev[0] == "ret" and ev[2] == "brecv_nb" and ev[3] is not None:
            brecv.setdefault(ev[1], []).append((ev[3], ev[4]))
    # non-blocking broadcast receive: what was completely sent to me before the poll started and not yet received must be found
    done_sends, got_cnt = {}, {}
    pending_at_call = {}
    for ev in log:
        if ev[0] == "ret" and ev[2] == "bsend" and ev[-1] == "ok":
            done_sends[ev[1]] = done_sends.get(ev[1], 0) + 1
        elif ev[0] == "ret" and ev[2] in ("brecv", "brecv_nb") and ev[3] is not None:
            got_cnt[(ev[1], ev[3])] = got_cnt.get((ev[1], ev[3]), 0) + 1
        elif ev[0] == "call" and ev[2] == "brecv_nb":
            pending_at_call[ev[1]] = [x for x in script if x != ev[1] and done_sends.get(x, 0) > got_cnt.get((ev[1], x), 0)]
        if ev[0] == "ret" and ev[2] == "brecv_nb" and ev[3] is None:
            if ev[4] != "!RuntimeError":
                return f"non-blocking broadcast receive of {ev[1]} raised {ev[4][1:]} instead of reporting emptiness"
            if pending_at_call.get(ev[1]):
                return (f"non-blocking broadcast receive of {ev[1]} reported 'no message' although broadcasts from {pending_at_call[ev[1]]} "
                        f"had been completely sent before the poll started and were not yet received")
    for ev in []:
        if False:
            pass
    if bsent:
        names = list(script)
        for r in names:
            got = brecv.get(r, [])
            for snd in names:
                if snd == r:
                    continue
                from_s = [m for f, m in got if f == snd]
                exp = bsent.get(snd, [])
                if from_s != exp[:len(from_s)] or len(set(from_s)) != len(from_s):
                    return f"{r} received broadcasts {from_s} from {snd}, which sent {exp}"
            n_ops = sum(1 for op in script[r] if op[0] == "brecv")
            total = sum(len(bsent.get(x, [])) for x in names if x != r)
            if any(op[0] == "brecv_nb" for op in script[r]):
                continue      # polls may legitimately find nothing; the rule above judges them
            if len(got) != min(n_ops, total):
                return f"{r} performed {n_ops} broadcast receives, {total} broadcasts were sent to it, got {got}"
    return None


def _sock_id(script, ep, sn):
    for op in script[ep]:
        if op[0] in ("open", "open_log") and op[1] == sn:
            return op[3]
    return None


def _sock_remote(script, ep, sn):
    for op in script[ep]:
        if op[0] in ("open", "open_log") and op[1] == sn:
            return op[2]
    return None


# ---- exploration ------------------------------------------------------------------------------------------------------

def cases(ctx):
    names = list(scenarios())
    k = 0
    for n, drain in ((70000, "after"), (66000, "concurrent")) if ctx.quick else ((70000, "after"), (66000, "concurrent"), (300000, "after"), (2**17 + 1, "after")):
        k += 1
        if ctx.mine(k):
            yield {"kind": "deep-queue", "n": n, "drain": drain, "socket_id": k % 3}
    k += 1
    if ctx.mine(k):
        yield {"kind": "broadcast-callbacks", "n": 3}
    for op in ("recv", "close", "send"):
        k += 1
        if ctx.mine(k):
            yield {"kind": "finalizer", "op": op, "runs": 40 if ctx.quick else 150}
    k += 1
    if ctx.mine(k):
        yield {"kind": "hub-reset"}
    for n in names:
        k += 1
        if ctx.mine(k):
            big = n in ("queue-40",)
            yield {"kind": "random", "scenario": n, "n": (40 if big else 300) if ctx.quick else (600 if big else 6000),
                   "seed": ctx.rng.randrange(2**31)}
    for n in names:
        k += 1
        if ctx.mine(k):
            big = n in ("queue-40",)
            yield {"kind": "dfs", "scenario": n, "preemptions": 1 if (ctx.quick or big) else 2,
                   "limit": (150 if big else 1500) if ctx.quick else (3000 if big else 60000)}


def _deep_queue(ctx, case):
    """Free-running threads (no controlled scheduler): a sender far ahead of its receiver. Every message exactly once, in order,
    however long the queue gets."""
    import threading
    import netqasm.sdk.classical_communication.thread_socket.socket_hub as hubmod
    from netqasm.sdk.classical_communication.thread_socket.socket import ThreadSocket
    vs.uninstall()
    hubmod.reset_socket_hub()
    n = case["n"]
    got, err = [], []

    def alice():
        try:
            sock = ThreadSocket("alice", "bob", socket_id=case["socket_id"], timeout=30)
            for i in range(n):
                sock.send(f"m{i}")
            sent.set()
            done.wait(120)
        except BaseException as e:  # noqa
            err.append(f"sender: {type(e).__name__}: {e}")
            sent.set()

    def bob():
        try:
            sock = ThreadSocket("bob", "alice", socket_id=case["socket_id"], timeout=30)
            if case["drain"] == "after":
                sent.wait(120)
            for i in range(n):
                got.append(sock.recv(block=True, timeout=10))
            try:
                extra = sock.recv(block=False)
                err.append(f"a non-blocking receive after all {n} messages were received returned {extra!r}")
            except RuntimeError:
                pass
        except BaseException as e:  # noqa
            err.append(f"receiver after {len(got)} of {n} messages: {type(e).__name__}: {e}")
        finally:
            done.set()
    sent, done = threading.Event(), threading.Event()
    ths = [threading.Thread(target=alice, daemon=True), threading.Thread(target=bob, daemon=True)]
    for t in ths:
        t.start()
    for t in ths:
        t.join(300)
    hubmod.reset_socket_hub()
    ctx.count("deep_queue_messages", len(got))
    want = [f"m{i}" for i in range(n)]
    if err:
        ctx.fail(case, f"queue of {n} pending messages: {err[0]}" + (f" (first message received: {got[0]!r})" if got else ""))
    elif got != want:
        i = next((j for j, (a, b) in enumerate(zip(got, want)) if a != b), min(len(got), len(want)))
        ctx.fail(case, f"queue of {n} pending messages: receive {i} returned {got[i] if i < len(got) else None!r} instead of {want[i]!r}")
    ctx.case(case, True)


def _broadcast_callbacks(ctx, case):
    """Free-running threads: callback delivery on a broadcast channel (use_callbacks=True, recv_callback overridden as the base
    class documents): every broadcast message reaches the callback exactly once, in order."""
    import threading
    import netqasm.sdk.classical_communication.thread_socket.socket_hub as hubmod
    from netqasm.sdk.classical_communication.thread_socket.broadcast_channel import ThreadBroadcastChannel
    vs.uninstall()
    hubmod.reset_socket_hub()
    got, chans, err = [], {}, []

    class Listener(ThreadBroadcastChannel):
        def recv_callback(self, remote_app_name, msg):
            got.append((remote_app_name, msg))

    def mk(name, remote, cls, **kw):
        try:
            chans[name] = cls(name, [remote], timeout=20, **kw)
        except BaseException as e:   # noqa
            err.append(f"{name}: {type(e).__name__}: {e}")

    ts = [threading.Thread(target=mk, args=("bob", "alice", Listener), kwargs={"use_callbacks": True}),
          threading.Thread(target=mk, args=("alice", "bob", ThreadBroadcastChannel))]
    [t.start() for t in ts]
    [t.join(60) for t in ts]
    if err or len(chans) != 2:
        ctx.count("inconclusive_broadcast_callback_setup")
        return ctx.case(case, False)
    sent = [f"m{i}" for i in range(case["n"])]
    for m in sent:
        chans["alice"].send(m)
    ctx.count("broadcast_callback_messages", len(sent))
    polled = []
    try:
        while True:
            polled.append(chans["bob"].recv(block=False))
    except RuntimeError:
        pass
    if got != [("alice", m) for m in sent]:
        ctx.fail(case, f"broadcast channel opened with use_callbacks=True: {len(sent)} messages were broadcast without error, its recv_callback "
                       f"was called {len(got)} time(s) ({got[:3]}) and recv(block=False) returns {polled[:3]}: "
                       f"{'every message is lost' if not got and not polled else 'not delivered exactly once through the callback'}",
                 key="broadcast-channel:use_callbacks-messages-never-reach-the-channels-callback" if not got and not polled else None)
    hubmod.reset_socket_hub()
    return ctx.case(case, True)


def _finalizer(ctx, case):
    """Own process (vf/harness/gc_probe.py): a socket that is cyclic garbage is finalized - and so disconnected - by the garbage
    collector at the k-th allocation after it was dropped, k = 0..runs-1, i.e. also at statements inside the hub's critical
    sections, while an unrelated connected socket does a non-blocking receive on its empty channel / is closed / sends."""
    import json
    import os
    import subprocess
    import sys
    probe = os.path.join(os.path.dirname(os.path.dirname(os.path.abspath(__file__))), "harness", "gc_probe.py")
    try:
        p = subprocess.run([sys.executable, probe, case["op"], str(case["runs"])], capture_output=True, text=True, timeout=300)
        rep = json.loads(p.stdout.strip().splitlines()[-1])
    except Exception as e:      # the probe itself failed: nothing observed
        ctx.count("finalizer_probe_failed")
        ctx.notes["finalizer_probe_error"] = f"{type(e).__name__}: {str(e)[:200]}"
        return ctx.case(case, False)
    ctx.count("finalizer_collection_points", rep["completed"])
    if rep["hung_at"] is not None:
        inside = any("__del__" in f for f in rep["stack"]) and any(":disconnect:" in f for f in rep["stack"])
        if inside:
            ctx.fail(case, f"a garbage-collected socket was finalized {rep['hung_at']} allocation(s) into a {case['op']} of another socket: "
                           f"the {'non-blocking receive on an empty channel' if case['op'] == 'recv' else case['op']} never returned "
                           f"(the thread waits for the hub lock it already holds: {' <- '.join(rep['stack'][:5])})")
        else:
            ctx.count("inconclusive_finalizer_probe_timeouts")
    elif rep.get("unexpected"):
        ctx.fail(case, f"non-blocking receive on an empty channel returned a message: {rep['unexpected'][:2]}")
    elif case["op"] == "send" and not rep.get("delivered", True):
        ctx.fail(case, "messages sent while sockets were being finalized were not all delivered exactly once, in order")
    return ctx.case(case, rep["completed"] > 0)


def run_case(ctx, case):
    from vf.common import h64
    if case["kind"] == "deep-queue":
        return _deep_queue(ctx, case)
    if case["kind"] == "hub-reset":
        import json
        import os
        import subprocess
        import sys
        probe = os.path.join(os.path.dirname(os.path.dirname(os.path.abspath(__file__))), "harness", "hub_reset_probe.py")
        try:
            p_ = subprocess.run([sys.executable, probe, "3"], capture_output=True, text=True, timeout=300)
            rep = json.loads(p_.stdout.strip().splitlines()[-1])
        except Exception as e:
            ctx.count("hub_reset_probe_failed")
            ctx.notes["hub_reset_probe_error"] = f"{type(e).__name__}: {str(e)[:200]}"
            return ctx.case(case, False)
        ctx.count("hub_reset_rounds", rep["rounds"])
        for pr in rep["problems"][:1]:
            ctx.fail(case, "sockets of one run held across reset_socket_hub(): " + pr)
        return ctx.case(case, True)
    if case["kind"] == "finalizer":
        return _finalizer(ctx, case)
    if case["kind"] == "broadcast-callbacks":
        return _broadcast_callbacks(ctx, case)
    script = scenarios()[case["scenario"]]
    if case["kind"] == "replay":
        picks = list(case["choices"])

        def chooser(s, cands, forced):
            i = len(s.choices)
            return picks[i] if i < len(picks) and picks[i] < len(cands) else 0
        s = run_schedule(script, chooser)
        err = judge(script, s)
        if err:
            if err.startswith("KF:"):
                err = err.split("|", 1)[1]
            ctx.fail(case, f"scenario {case['scenario']}: {err}", detail={"log": [list(map(str, e)) for e in s.log]})
        return ctx.case(case, True)

    def account(s, err):
        ctx.count("schedules")
        ctx.count("yield_points", s.steps)
        if s.aborted and not err:
            ctx.count("inconclusive_schedules")
            ctx.count("inconclusive_" + s.aborted.replace(" ", "_"))
            return
        hv = h64([case["scenario"], s.choices])
        ctx.all_hashes.add(hv)
        if s.preemptions:
            ctx.count("preempted_schedules")
            ctx.nontrivial_hashes.add(hv)
        ctx.evaluations += 1
        for site, n in s.yield_sites.items():
            ctx.count("site_" + site, n)
        if err:
            key = None
            if err.startswith("KF:broadcast-cyclic|"):
                key, err = KF_CYCLE, err.split("|", 1)[1]
            ctx.fail({"kind": "replay", "scenario": case["scenario"], "choices": list(s.choices)},
                     f"scenario {case['scenario']} (schedule of {len(s.choices)} choices, {s.preemptions} preemptions): {err}",
                     detail={"log": [list(map(str, e)) for e in s.log]}, key=key)

    if case["kind"] == "random":
        rng = random.Random(case["seed"])
        for _ in range(case["n"]):
            p = rng.choice([0.02, 0.05, 0.1, 0.3])

            def chooser(s, cands, forced):
                if forced:
                    return rng.randrange(len(cands))
                return rng.randrange(1, len(cands)) if rng.random() < p else 0
            s = run_schedule(script, chooser)
            account(s, judge(script, s))
            if ctx.too_many() or ctx.elapsed() > WALL_BUDGET[ctx.tier]:
                break
    else:
        budget = case["preemptions"]
        stack = []     # [index, n] per choice point that has alternatives
        count = 0
        complete = False
        while True:
            def chooser(s, cands, forced):
                d = len(s.choices)
                if not forced and s.preemptions >= budget:
                    # budget used: stay on the current thread (still recorded as a choice with a single option)
                    if d >= len(stack):
                        stack.append([0, 1])
                    else:
                        stack[d][1] = 1
                    return 0
                if d < len(stack):
                    stack[d][1] = len(cands)
                    return min(stack[d][0], len(cands) - 1)
                stack.append([0, len(cands)])
                return 0
            s = run_schedule(script, chooser)
            del stack[len(s.choices):]
            account(s, judge(script, s))
            count += 1
            if count >= case["limit"] or ctx.too_many() or ctx.elapsed() > WALL_BUDGET[ctx.tier]:
                break
            while stack and stack[-1][0] + 1 >= stack[-1][1]:
                stack.pop()
            if not stack:
                complete = True
                break
            stack[-1][0] += 1
        ctx.count("dfs_complete" if complete else "dfs_capped")
        if not complete:
            ctx.exhaustive = False
    gc.collect()
    ctx.evaluations = max(0, ctx.evaluations - 1)
    ctx.case({k: v for k, v in case.items()}, True)


def finish(ctx):
    vs.uninstall()
