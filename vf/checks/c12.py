"""C12 — the controller matches entanglement responses to requests under any interleaving (L2, schedules)."""
from __future__ import annotations

from vf.harness import sched_epr as se

PID = "C12"
LEVEL = "exploration"
RULE = ("scenario templates (1-2 applications, up to 3 outstanding requests of up to 3 pairs, create and receive roles, keep "
        "and measure types, same and different sockets, target virtual qubits busy then freed, responses arriving before "
        "their recv instruction, qlink-1.0 response objects) written as real NetQASM subroutines and executed on the real "
        "Executor; the driver interleaves visible instruction steps (create_epr, recv_epr, wait_*, qalloc, qfree, load, "
        "ret_arr; silent classical runs are atomic) with response deliveries: quick = ALL interleavings of every scenario "
        "up to 3000 schedules each + random schedules of the larger ones; thorough = all interleavings of every "
        "scenario (cap 200000 per scenario) + 20000 random. Oracle per schedule: online monitors (a wait resumes only "
        "when its entries are defined; a keep-response never lands on an allocated virtual qubit; exceptions) and at "
        "the end R-LINK: each response consumed exactly once by the oldest outstanding request of its key, pair k -> "
        "slice k -> k-th virtual qubit, requests retired, nothing pending."
        ' Plus randomly generated scenarios (1-2 applications, 1-4 requests of random role / type / pair count / socket / remote, busy targets freed before the first wait, waits in random order, applications stopped by their host while others run, unnumbered link layers whose responses are equal field by field) explored exhaustively up to 150 (quick) / 600 (thorough) schedules each and randomly beyond; and a socket re-opened by the next application with a new purpose id. '
        ' Plus a request that is still outstanding when its subroutine returns and is waited for by a later subroutine of the application. '
        " Two subroutines of one application running concurrently: a sibling leaves other values in the registers of a wait operand while the first is suspended (the awaited part is fixed when the wait starts - the monitor records the registers at that moment); two requests outstanding whose qubit ids were passed in the same, re-filled array. "
        "Non-trivial = the schedule contains a "
        "delivery that arrives before its request or is deferred, or >= 2 requests outstanding at once; distinct = "
        "distinct (scenario, choice list).")
ASSUMPTIONS = ["responses of one key (remote node, purpose, role) arrive in pair order and in request issue order; across keys and relative to instruction progress the order is arbitrary",
               "a create-role response cannot precede its create_epr instruction; receive-role responses can precede recv_epr",
               "instruction granularity: interleavings are explored between visible instructions"]
SHARDS = {"quick": 4, "thorough": 16}
MIN_COUNTERS = {"schedules": 2000, "deferred_deliveries_seen": 100, "early_arrivals_seen": 100}
MIN_NONTRIVIAL = {"quick": 500, "thorough": 8000}
WALL_BUDGET = {"quick": 200, "thorough": 2400}


KF_OUTLIVES = "epr-request:outstanding-after-its-subroutine-returned"


def arr(addr, n):
    return f"array {n} @{addr}\n"


def stores(addr, vals):
    return "".join(f"store {v} @{addr}[{i}]\n" for i, v in enumerate(vals) if v is not None)


def recv_k(res, qa, qids, socket=0, remote=1):
    n = len(qids)
    return arr(res, 10 * n) + arr(qa, n) + stores(qa, qids) + f"recv_epr({remote},{socket}) {qa} {res}\n"


def recv_m(res, n, socket=0, remote=1):
    return arr(res, 10 * n) + f"recv_epr({remote},{socket}) C0 {res}\n"


def create(res, qa, qids, args, tp, n, socket=0, remote=1, opts=None):
    # opts: the request's other link-layer options by slot (6 max_time, 7 priority, 8 atomic, 9 consecutive): none of them
    # changes which request a response belongs to
    vals = [tp, n] + [None] * 8
    for slot, v in (opts or {}).items():
        vals[slot] = v
    s = arr(res, 10 * n) + arr(args, 20) + stores(args, vals)
    if tp == 0:
        s += arr(qa, n) + stores(qa, qids) + f"create_epr({remote},{socket}) {qa} {args} {res}\n"
    else:
        s += f"create_epr({remote},{socket}) C0 {args} {res}\n"
    return s


def wall(addr, n):
    return f"wait_all @{addr}[0:{10 * n}]\n"


def K(n, bells=None):
    return [{"kind": "K", "bell": (bells or [0] * n)[i]} for i in range(n)]


def M(n):
    return [{"kind": "M", "outcome": i % 2, "basis": i % 3, "bell": i % 4} for i in range(n)]


def req(app, role, tp, n, res, qids=None, socket=0, remote=1):
    return {"app": app, "role": role, "tp": tp, "number": n, "result_addr": res, "qubit_ids": qids, "socket": socket, "remote": remote}


def scenarios():
    S = []
    # 1. one receive-keep request of two pairs
    S.append({"name": "recv-keep-2", "apps": [{"app": 0, "unit": 3, "text": recv_k(0, 1, [0, 1]) + wall(0, 2) + "ret_arr @0\n"}],
              "requests": [req(0, "recv", "K", 2, 0, [0, 1])], "streams": [{"key": [1, 0, "recv"], "responses": K(2, [1, 2])}]})
    # 2. create-keep and receive-measure on the same socket (different roles -> different queues)
    S.append({"name": "create-keep+recv-measure", "apps": [{"app": 0, "unit": 3, "text":
              create(0, 1, [0, 1], 2, 0, 2) + recv_m(3, 2) + wall(3, 2) + wall(0, 2)}],
              "requests": [req(0, "create", "K", 2, 0, [0, 1]), req(0, "recv", "M", 2, 3)],
              "streams": [{"key": [1, 0, "create"], "responses": K(2)}, {"key": [1, 0, "recv"], "responses": M(2)}]})
    # 3. two receive requests on the same socket (1 pair, then 2 pairs), waited for in reverse order
    S.append({"name": "two-recv-same-key", "apps": [{"app": 0, "unit": 4, "text":
              recv_k(0, 1, [0]) + recv_k(2, 3, [1, 2]) + wall(2, 2) + wall(0, 1)}],
              "requests": [req(0, "recv", "K", 1, 0, [0]), req(0, "recv", "K", 2, 2, [1, 2])],
              "streams": [{"key": [1, 0, "recv"], "responses": K(3, [3, 1, 0])}]})
    # 4. target virtual qubit busy, freed later
    S.append({"name": "busy-target-then-freed", "apps": [{"app": 0, "unit": 2, "text":
              "set Q0 0\nqalloc Q0\n" + recv_k(0, 1, [0, 1]) + "set R5 0\nset R6 0\nadd R5 R5 R6\nset Q0 0\nqfree Q0\n" + wall(0, 2)}],
              "requests": [req(0, "recv", "K", 2, 0, [0, 1])], "streams": [{"key": [1, 0, "recv"], "responses": K(2)}]})
    # 5. a deferred keep-response followed by a measure-response of the same key (head-of-line)
    S.append({"name": "deferred-keep-then-measure-same-key", "apps": [{"app": 0, "unit": 2, "text":
              "set Q0 0\nqalloc Q0\n" + recv_k(0, 1, [0]) + recv_m(2, 1) + "set Q0 0\nqfree Q0\n" + wall(0, 1) + wall(2, 1)}],
              "requests": [req(0, "recv", "K", 1, 0, [0]), req(0, "recv", "M", 1, 2)],
              "streams": [{"key": [1, 0, "recv"], "responses": K(1) + M(1)}]})
    # 6. two applications, one request each, different sockets, concurrently running subroutines
    S.append({"name": "two-apps-two-sockets", "apps": [
        {"app": 0, "unit": 2, "text": recv_k(0, 1, [0, 1], socket=0) + wall(0, 2)},
        {"app": 1, "unit": 2, "text": recv_k(0, 1, [1], socket=1) + wall(0, 1)}],
        "requests": [req(0, "recv", "K", 2, 0, [0, 1], socket=0), req(1, "recv", "K", 1, 0, [1], socket=1)],
        "streams": [{"key": [1, 0, "recv"], "responses": K(2)}, {"key": [1, 1, "recv"], "responses": K(1, [2])}]})
    # 7. create three pairs; wait_any, wait_single per pair, then wait_all
    S.append({"name": "create-3-wait-variants", "apps": [{"app": 0, "unit": 3, "text":
              create(0, 1, [0, 1, 2], 2, 0, 3) + "wait_any @0[0:30]\nwait_single @0[9]\nwait_single @0[19]\nwait_all @0[0:30]\nload R9 @0[29]\n"}],
              "requests": [req(0, "create", "K", 3, 0, [0, 1, 2])], "streams": [{"key": [1, 0, "create"], "responses": K(3, [0, 1, 3])}]})
    # 8. two sockets; socket 1's responses may arrive before its recv_epr is executed
    S.append({"name": "early-arrival-other-socket", "apps": [{"app": 0, "unit": 3, "text":
              recv_k(0, 1, [0, 1], socket=0) + wall(0, 2) + recv_k(2, 3, [2], socket=1) + wall(2, 1)}],
              "requests": [req(0, "recv", "K", 2, 0, [0, 1], socket=0), req(0, "recv", "K", 1, 2, [2], socket=1)],
              "streams": [{"key": [1, 0, "recv"], "responses": K(2)}, {"key": [1, 1, "recv"], "responses": K(1)}]})
    # 9. two one-pair receive requests on the same key outstanding at once (retirement order)
    S.append({"name": "two-single-pair-requests", "apps": [{"app": 0, "unit": 2, "text":
              recv_m(0, 1) + recv_m(1, 1) + wall(0, 1) + wall(1, 1)}],
              "requests": [req(0, "recv", "M", 1, 0), req(0, "recv", "M", 1, 1)],
              "streams": [{"key": [1, 0, "recv"], "responses": M(2)}]})
    # 10. responses handed over as qlink-1.0 objects (conversion on entry), receive role, measure and keep
    S.append({"name": "qlink10-recv", "qlink10": True, "apps": [{"app": 0, "unit": 2, "text":
              recv_m(0, 2) + recv_k(1, 2, [0], socket=1) + wall(0, 2) + wall(1, 1)}],
              "requests": [req(0, "recv", "M", 2, 0), req(0, "recv", "K", 1, 1, [0], socket=1)],
              "streams": [{"key": [1, 0, "recv"], "responses": M(2)}, {"key": [1, 1, "recv"], "responses": K(1)}]})
    # 11. create and receive keep on the same socket, three requests outstanding
    S.append({"name": "three-outstanding-mixed", "apps": [{"app": 0, "unit": 4, "text":
              create(0, 1, [0], 2, 0, 1) + recv_k(3, 4, [1, 2]) + create(5, 6, [3], 7, 0, 1, opts={7: 3, 9: 1}) + wall(5, 1) + wall(3, 2) + wall(0, 1)}],
              "requests": [req(0, "create", "K", 1, 0, [0]), req(0, "recv", "K", 2, 3, [1, 2]), req(0, "create", "K", 1, 5, [3])],
              "streams": [{"key": [1, 0, "create"], "responses": K(2, [1, 2])}, {"key": [1, 0, "recv"], "responses": K(2)}]})
    # 11b. a repeater node: one local socket id towards two remote nodes (each its own purpose id at the network stack)
    S.append({"name": "same-socket-id-two-remotes", "purpose_map": [[1, 0, 11], [2, 0, 22]], "apps": [{"app": 0, "unit": 3, "text":
              recv_k(0, 1, [0], remote=1) + recv_k(3, 4, [1], remote=2) + create(6, 7, [2], 8, 0, 1, remote=2) + wall(3, 1) + wall(0, 1) + wall(6, 1)}],
              "requests": [req(0, "recv", "K", 1, 0, [0], remote=1), req(0, "recv", "K", 1, 3, [1], remote=2), req(0, "create", "K", 1, 6, [2], remote=2)],
              "streams": [{"key": [1, 0, "recv"], "responses": K(1)}, {"key": [2, 0, "recv"], "responses": K(1, [1])},
                          {"key": [2, 0, "create"], "responses": K(1, [2])}]})
    # 11c. a create request the network stack refuses (its subroutine ends with that error), and a valid one on the same socket -
    # before it, after it, or both
    for nm, order in (("refused-then-valid", ["bad", "good"]), ("valid-then-refused", ["good", "bad"]), ("refused-valid-refused-valid", ["bad", "good", "bad", "good2"])):
        apps_, reqs_, n_good = [], [], 0
        for j, what in enumerate(order):
            if what == "bad":
                apps_.append({"app": 0, "unit": 3, "faults": True, "after_done": j - 1 if j else None,
                              "text": create(20, 21, [2], 22, 0, 1, opts={7: 9})})
            else:
                base = 6 * n_good
                apps_.append({"app": 0, "unit": 3, "after_done": j - 1 if j else None,
                              "text": create(base, base + 1, [n_good], base + 2, 0, 1) + wall(base, 1)})
                reqs_.append(req(0, "create", "K", 1, base, [n_good]))
                n_good += 1
        S.append({"name": nm, "stack_refuses_priority": 9, "apps": apps_, "requests": reqs_,
                  "streams": [{"key": [1, 0, "create"], "responses": K(n_good, [1, 2][:n_good])}]})
    # 11d. another application opens ITS socket (same socket id, another remote node) at any moment - also while a response for
    # the first application is waiting to be handed over
    S.append({"name": "another-application-opens-its-socket", "apps": [
        {"app": 0, "unit": 2, "text": recv_k(0, 1, [0, 1], remote=1) + wall(0, 2)},
        {"app": 1, "unit": 1, "open_socket": [0, 2], "text": recv_k(0, 1, [0], remote=2) + wall(0, 1)}],
        "requests": [req(0, "recv", "K", 2, 0, [0, 1], remote=1), req(1, "recv", "K", 1, 0, [0], remote=2)],
        "streams": [{"key": [1, 0, "recv"], "responses": K(2, [1, 2])}, {"key": [2, 0, "recv"], "responses": K(1)}]})
    # 12. create requests whose result arrays are larger than their number of pairs needs (hand-written subroutine)
    S.append({"name": "create-oversized-result-arrays", "apps": [{"app": 0, "unit": 3, "text":
              arr(0, 30) + arr(2, 20) + stores(2, [0, 1]) + arr(1, 1) + stores(1, [0]) + "create_epr(1,0) 1 2 0\n" +
              arr(5, 20) + arr(7, 20) + stores(7, [0, 1]) + arr(6, 1) + stores(6, [1]) + "create_epr(1,0) 6 7 5\n" +
              "wait_all @0[0:10]\nwait_all @5[0:10]\n"}],
              "requests": [req(0, "create", "K", 1, 0, [0]), req(0, "create", "K", 1, 5, [1])],
              "streams": [{"key": [1, 0, "create"], "responses": K(2, [1, 2])}], "array_prefix_only": True})
    # 13. a keep-response of the receive role deferred on a busy qubit while create-role responses of the same socket arrive
    S.append({"name": "deferred-recv-keep-vs-create-measure", "apps": [{"app": 0, "unit": 2, "text":
              "set Q0 0\nqalloc Q0\n" + recv_k(0, 1, [0]) + create(2, 3, None, 4, 1, 2) + wall(2, 2) + "set Q0 0\nqfree Q0\n" + wall(0, 1)}],
              "requests": [req(0, "recv", "K", 1, 0, [0]), req(0, "create", "M", 2, 2)],
              "streams": [{"key": [1, 0, "recv"], "responses": K(1)}, {"key": [1, 0, "create"], "responses": M(2)}]})
    # 14. the mirror image: create-keep deferred, receive-measure responses behind it
    S.append({"name": "deferred-create-keep-vs-recv-measure", "apps": [{"app": 0, "unit": 2, "text":
              "set Q0 1\nqalloc Q0\n" + create(0, 1, [1], 2, 0, 1) + recv_m(3, 2) + wall(3, 2) + "set Q0 1\nqfree Q0\n" + wall(0, 1)}],
              "requests": [req(0, "create", "K", 1, 0, [1]), req(0, "recv", "M", 2, 3)],
              "streams": [{"key": [1, 0, "create"], "responses": K(1)}, {"key": [1, 0, "recv"], "responses": M(2)}]})
    # 15. two applications issuing receive requests on the SAME key: the oldest outstanding request (by issue order) is served first
    S.append({"name": "two-apps-same-key", "apps": [
        {"app": 0, "unit": 2, "text": recv_m(0, 1) + wall(0, 1)},
        {"app": 1, "unit": 2, "text": recv_m(0, 2) + wall(0, 2)}],
        "requests": [req(0, "recv", "M", 1, 0), req(1, "recv", "M", 2, 0)],
        "streams": [{"key": [1, 0, "recv"], "responses": M(3)}]})
    # 16. a link layer that does not number its responses: two measure-responses that are equal field by field
    S.append({"name": "unnumbered-equal-responses", "unnumbered": True, "apps": [{"app": 0, "unit": 2, "text": recv_m(0, 3) + wall(0, 3)}],
              "requests": [req(0, "recv", "M", 3, 0)],
              "streams": [{"key": [1, 0, "recv"], "responses": [{"kind": "M", "outcome": 1, "basis": 0, "bell": 0}] * 3}]})
    # 17. a long-lived controller: application 0 is closed, its socket is re-opened by the next application and the network
    #     stack hands out a different purpose id for it; the new requests are matched with the new responses
    for tp in ("M", "K"):
        first = recv_m(0, 1) if tp == "M" else recv_k(0, 1, [0])
        second = recv_m(0, 2) if tp == "M" else recv_k(0, 1, [0, 1])
        resp = (M(3) if tp == "M" else K(3, [1, 2, 3]))
        resp = [dict(r) for r in resp]
        for r in resp[1:]:
            r["after_stop"] = 0
        S.append({"name": "socket-reopened-new-purpose-id-" + tp, "apps": [
            {"app": 0, "unit": 2, "text": first + wall(0, 1), "stop": True, "remap_on_stop": [[[1, 0], 9]]},
            {"app": 1, "unit": 2, "text": second + wall(0, 2), "after": 0}],
            "requests": [req(0, "recv", tp, 1, 0, [0] if tp == "K" else None), req(1, "recv", tp, 2, 0, [0, 1] if tp == "K" else None)],
            "streams": [{"key": [1, 0, "recv"], "responses": resp}]})
    # 18. receive requests whose result arrays are larger than needed by an amount that is not a multiple of the record size
    #     (16 entries for one pair, 27 for two): the number of pairs is the number of whole records
    S.append({"name": "recv-result-arrays-with-a-partial-record", "apps": [{"app": 0, "unit": 3, "text":
              arr(0, 16) + arr(1, 1) + stores(1, [0]) + "recv_epr(1,0) 1 0\n" +
              arr(2, 27) + arr(3, 2) + stores(3, [1, 2]) + "recv_epr(1,0) 3 2\n" +
              "wait_all @0[0:10]\nwait_all @2[0:20]\n"}],
              "requests": [req(0, "recv", "K", 1, 0, [0]), req(0, "recv", "K", 2, 2, [1, 2])],
              "streams": [{"key": [1, 0, "recv"], "responses": K(3, [1, 2, 3])}], "array_prefix_only": True})
    S.append({"name": "recv-measure-result-array-with-a-partial-record", "apps": [{"app": 0, "unit": 1, "text":
              arr(0, 19) + "recv_epr(1,0) C0 0\n" + arr(2, 10) + "recv_epr(1,0) C0 2\n" + "wait_all @0[0:10]\nwait_all @2[0:10]\n"}],
              "requests": [req(0, "recv", "M", 1, 0), req(0, "recv", "M", 1, 2)],
              "streams": [{"key": [1, 0, "recv"], "responses": M(2)}], "array_prefix_only": True})
    # 20. a request that is still outstanding when its subroutine returns; a later subroutine of the application posts another
    #     request on the same socket and waits for both
    for tp in ("M", "K"):
        first = (arr(0, 10) + "recv_epr(1,0) C0 0\n") if tp == "M" else (arr(0, 10) + arr(1, 1) + stores(1, [0]) + "recv_epr(1,0) 1 0\n")
        second = ((arr(2, 10) + "recv_epr(1,0) C0 2\n") if tp == "M" else (arr(2, 10) + arr(3, 1) + stores(3, [1]) + "recv_epr(1,0) 3 2\n")) + \
            "wait_all @0[0:10]\nwait_all @2[0:10]\n"
        S.append({"name": "request-outlives-its-subroutine-" + tp, "outlives": True, "apps": [
            {"app": 0, "unit": 2, "text": first}, {"app": 0, "unit": 2, "text": second, "after_done": 0}],
            "requests": [req(0, "recv", tp, 1, 0, [0] if tp == "K" else None), req(0, "recv", tp, 1, 2, [1] if tp == "K" else None)],
            "streams": [{"key": [1, 0, "recv"], "responses": (M(2) if tp == "M" else K(2, [1, 2]))}]})
    # 21. the link layer reports an error (for a request of some other socket that timed out) between ordinary responses: it is
    #     reported once, and the other responses are matched as if it had not been there
    S.append({"name": "error-response-between-ok-responses", "apps": [{"app": 0, "unit": 2, "text":
              recv_m(0, 2) + recv_k(2, 3, [0], socket=1) + wall(0, 2) + wall(2, 1)}],
              "requests": [req(0, "recv", "M", 2, 0), req(0, "recv", "K", 1, 2, [0], socket=1)],
              "streams": [{"key": [1, 0, "recv"], "responses": M(2)}, {"key": [1, 1, "recv"], "responses": K(1, [2])},
                          {"key": [1, 5, "recv"], "responses": [{"kind": "E"}]}]})
    # 22. two subroutines of one application run concurrently and share its registers: while one is suspended in a wait whose
    #     operand was given in registers, the other leaves other values in those registers (an earlier / later slice, an empty
    #     one). What the first one waits for was fixed when its wait started.
    for wname, wait in (("single", "set R0 19\nwait_single @0[R0]\n"), ("any", "set R0 10\nset R1 20\nwait_any @0[R0:R1]\n"),
                        ("all", "set R0 10\nset R1 20\nwait_all @0[R0:R1]\n")):
        for r0, r1 in ((0, 10), (1, 0)):
            other = arr(5, 1) + stores(5, [7]) + f"set R0 {r0}\nset R1 {r1}\nload R9 @5[0]\n"
            S.append({"name": f"wait-{wname}-operand-registers-changed-by-a-sibling-{r0}-{r1}", "apps": [
                {"app": 0, "unit": 3, "text": recv_k(0, 1, [0, 1]) + wait + "load R8 @0[19]\n"},
                {"app": 0, "unit": 3, "text": other}],
                "requests": [req(0, "recv", "K", 2, 0, [0, 1])], "streams": [{"key": [1, 0, "recv"], "responses": K(2, [1, 2])}]})
    # the controller is node 2 and its peer is node 0 (a node id of 0 is a value like any other): both roles on one socket
    S.append({"name": "peer-is-node-0-both-roles", "node_id": 2, "apps": [{"app": 0, "unit": 3, "text":
              create(0, 1, [0, 1], 2, 0, 2, remote=0) + recv_m(3, 2, remote=0) + wall(3, 2) + wall(0, 2)}],
              "requests": [req(0, "create", "K", 2, 0, [0, 1], remote=0), req(0, "recv", "M", 2, 3, remote=0)],
              "streams": [{"key": [0, 0, "create"], "responses": K(2)}, {"key": [0, 0, "recv"], "responses": M(2)}]})
    S.append({"name": "peer-is-node-0-recv-keep", "node_id": 1, "apps": [{"app": 0, "unit": 3, "text":
              recv_k(0, 1, [0, 1], remote=0) + wall(0, 2) + "ret_arr @0\n"}],
              "requests": [req(0, "recv", "K", 2, 0, [0, 1], remote=0)], "streams": [{"key": [0, 0, "recv"], "responses": K(2, [1, 2])}]})
    # 23. two requests outstanding at once whose qubit ids were passed in the SAME array, re-filled in between (a program that
    #     re-uses its scratch arrays): pair k of a request goes to that request's k-th qubit id
    S.append({"name": "qubit-id-array-reused-by-the-next-request", "apps": [{"app": 0, "unit": 3, "text":
              arr(0, 10) + arr(1, 1) + stores(1, [0]) + "recv_epr(1,0) 1 0\n" + arr(2, 10) + stores(1, [1]) + "recv_epr(1,1) 1 2\n" +
              wall(0, 1) + wall(2, 1)}],
              "requests": [req(0, "recv", "K", 1, 0, [0], socket=0), req(0, "recv", "K", 1, 2, [1], socket=1)],
              "streams": [{"key": [1, 0, "recv"], "responses": K(1, [1])}, {"key": [1, 1, "recv"], "responses": K(1, [2])}]})
    # a receive request that turns out to be measure-directly: its qubit-id operand is a dummy register (the SDK passes C0) which
    # may hold any number - here one that names no array, and one that names an array of another length
    # (an array SHORTER than the number of pairs too: e.g. the one-entry qubit-id array of an earlier keep request)
    for c0, nm, ln, n in ((7, "no-array", 5, 2), (3, "other-array", 5, 2), (3, "shorter-array", 1, 2), (3, "shorter-array-3-pairs", 2, 3)):
        S.append({"name": f"recv-measure-with-a-dummy-qubit-operand-{nm}", "apps": [{"app": 0, "unit": 2, "text":
                  f"set C0 {c0}\n" + arr(3, ln) + arr(0, 10 * n) + "recv_epr(1,0) C0 0\n" + wall(0, n)}],
                  "requests": [req(0, "recv", "M", n, 0)], "streams": [{"key": [1, 0, "recv"], "responses": M(n)}]})
    S.append({"name": "qubit-id-array-at-address-0-reused-by-the-next-request", "apps": [{"app": 0, "unit": 3, "text":
              arr(0, 1) + stores(0, [0]) + arr(3, 10) + "recv_epr(1,0) 0 3\n" + arr(4, 10) + stores(0, [1]) + "recv_epr(1,1) 0 4\n" +
              wall(3, 1) + wall(4, 1)}],
              "requests": [req(0, "recv", "K", 1, 3, [0], socket=0), req(0, "recv", "K", 1, 4, [1], socket=1)],
              "streams": [{"key": [1, 0, "recv"], "responses": K(1, [1])}, {"key": [1, 1, "recv"], "responses": K(1, [2])}]})
    # a pooled id array that is LONGER than one request needs (the request uses its first entries), re-filled for the next request
    S.append({"name": "qubit-id-pool-longer-than-the-request-reused", "apps": [{"app": 0, "unit": 3, "text":
              arr(0, 10) + arr(1, 3) + stores(1, [0, 2, 2]) + "recv_epr(1,0) 1 0\n" + arr(2, 10) + stores(1, [1, 2, 2]) + "recv_epr(1,1) 1 2\n" +
              wall(0, 1) + wall(2, 1)}],
              "requests": [req(0, "recv", "K", 1, 0, [0], socket=0), req(0, "recv", "K", 1, 2, [1], socket=1)],
              "streams": [{"key": [1, 0, "recv"], "responses": K(1, [1])}, {"key": [1, 1, "recv"], "responses": K(1, [2])}]})
    S.append({"name": "qubit-id-array-reused-by-the-next-create-request", "apps": [{"app": 0, "unit": 3, "text":
              create(0, 1, [0], 2, 0, 1, socket=0) + arr(5, 10) + stores(1, [2]) + "create_epr(1,1) 1 2 5\n" + wall(0, 1) + wall(5, 1)}],
              "requests": [req(0, "create", "K", 1, 0, [0], socket=0), req(0, "create", "K", 1, 5, [2], socket=1)],
              "streams": [{"key": [1, 0, "create"], "responses": K(1, [1])}, {"key": [1, 1, "create"], "responses": K(1, [3])}]})
    return S


def gen_scenario(rng):
    """A random well-formed scenario: 1-2 applications, 1-4 requests (create/receive, keep/measure, 1-3 pairs, sockets 0-1,
    remotes 1-2), optionally target qubits that are busy when the request is issued and freed before the first wait,
    waits in random order (interleaved with later requests when no target is busy); an application may be stopped by its
    host as soon as its subroutine is done, while the other one still runs or still has early arrivals pending."""
    napps = rng.choice([1, 1, 2])
    nreq_total = rng.randrange(1, 5)
    per_app = [[] for _ in range(napps)]
    for _ in range(nreq_total):
        per_app[rng.randrange(napps)].append(None)
    per_app = [x for x in per_app if x] or [[None]]
    napps = len(per_app)
    sockets = rng.choice([[0], [0], [0, 1]])
    remotes = rng.choice([[1], [1], [1, 2]])
    # keys used by more than one application carry a single type (the stream content must not depend on issue order)
    key_type = {}
    plans = []
    for ai in range(napps):
        reqs = []
        for _ in per_app[ai]:
            key = (rng.choice(remotes), rng.choice(sockets), rng.choice(["create", "recv"]))
            opts = {slot: rng.randrange(top) for slot, top in ((6, 50), (7, 4), (8, 2), (9, 2)) if rng.random() < 0.5}
            reqs.append({"key": key, "tp": rng.choice("KM"), "n": rng.choice([1, 1, 2, 3]), "opts": opts if rng.random() < 0.6 else None})
        plans.append(reqs)
    users = {}
    for ai, reqs in enumerate(plans):
        for r in reqs:
            users.setdefault(r["key"], set()).add(ai)
    for key, us in users.items():
        if len(us) > 1:
            key_type[key] = rng.choice("KM")
    apps, requests = [], []
    for ai, reqs in enumerate(plans):
        nextq = 0
        busy = []
        text_req, waits = [], []
        allow_busy = rng.random() < 0.4
        for ri, r in enumerate(reqs):
            r["tp"] = key_type.get(r["key"], r["tp"])
            res, qa, args = 3 * ri, 3 * ri + 1, 3 * ri + 2
            remote, socket, role = r["key"]
            qids = None
            if r["tp"] == "K":
                qids = list(range(nextq, nextq + r["n"]))
                nextq += r["n"]
                if allow_busy and rng.random() < 0.5:
                    busy.append(rng.choice(qids))
            if role == "recv":
                t = recv_k(res, qa, qids, socket=socket, remote=remote) if r["tp"] == "K" else recv_m(res, r["n"], socket=socket, remote=remote)
            else:
                t = create(res, qa, qids, args, 0 if r["tp"] == "K" else 1, r["n"], socket=socket, remote=remote, opts=r["opts"])
            text_req.append(t)
            waits.append(wall(res, r["n"]))
            requests.append(req(ai, role, r["tp"], r["n"], res, qids, socket=socket, remote=remote))
        text = "".join(f"set Q0 {v}\nqalloc Q0\n" for v in busy)
        if busy:
            text += "".join(text_req) + "set R5 1\nadd R5 R5 R5\n" + "".join(f"set Q0 {v}\nqfree Q0\n" for v in busy)
            rng.shuffle(waits)
            text += "".join(waits)
        else:
            pending = []
            for t, w in zip(text_req, waits):
                text += t
                pending.append(w)
                while pending and rng.random() < 0.3:
                    text += pending.pop(rng.randrange(len(pending)))
            rng.shuffle(pending)
            text += "".join(pending)
        if rng.random() < 0.3:
            text += "ret_arr @0\n"
        apps.append({"app": ai, "unit": max(1, nextq) + rng.randrange(2), "text": text, "stop": rng.random() < 0.45})
        if plans[ai] and rng.random() < 0.35:
            # its host opens (one of) its EPR socket(s) at some moment of the run rather than before everything else
            remote_, socket_, _role = rng.choice(plans[ai])["key"]
            apps[-1]["open_socket"] = [socket_, remote_]
    streams = []
    for key in sorted(users):
        resp = []
        if key in key_type:
            total = sum(r["n"] for reqs in plans for r in reqs if r["key"] == key)
            resp = K(total, [rng.randrange(4) for _ in range(total)]) if key_type[key] == "K" else M(total)
        else:
            (ai,) = users[key]
            for r in plans[ai]:
                if r["key"] == key:
                    resp += K(r["n"], [rng.randrange(4) for _ in range(r["n"])]) if r["tp"] == "K" else M(r["n"])
        streams.append({"key": list(key), "responses": resp})
    sc = {"name": "generated", "apps": apps, "requests": requests, "streams": streams, "qlink10": rng.random() < 0.15}
    if len(remotes) == 2 and rng.random() < 0.6:
        sc["purpose_map"] = [[r_, s_, 10 * r_ + s_ + 3] for r_ in remotes for s_ in sockets]
    if rng.random() < 0.15 and all(r["kind"] == "M" for s_ in streams for r in s_["responses"]):
        sc["unnumbered"] = True
        for s_ in streams:
            s_["responses"] = [dict(s_["responses"][0]) for _ in s_["responses"]]
    return sc


def cases(ctx):
    scs = scenarios()
    k = 0
    for si, sc in enumerate(scs):
        k += 1
        if ctx.mine(k):
            yield {"kind": "dfs", "scenario": si, "name": sc["name"], "limit": 3000 if ctx.quick else 200000}
    nrand = ctx.n(1500, 20000)
    for si, sc in enumerate(scs):
        k += 1
        if ctx.mine(k):
            yield {"kind": "random", "scenario": si, "name": sc["name"], "n": max(50, nrand // len(scs) * ctx.nshards // 1),
                   "seed": ctx.rng.randrange(2**31)}


    for _ in range(ctx.n(120, 6000)):
        sc = gen_scenario(ctx.rng)
        yield {"kind": "generated", "scenario": -1, "name": "generated", "inline": sc, "n": 12 if ctx.quick else 40,
               "dfs_limit": 150 if ctx.quick else 600, "seed": ctx.rng.randrange(2**31)}


def run_case(ctx, case):
    import random
    from vf.common import h64
    sc = case.get("inline") or scenarios()[case["scenario"]]
    if case["kind"] == "replay":
        try:
            se.replay(sc, case["picks"])
        except se.Violation as v:
            ctx.fail(case, f"scenario {sc['name']}: {v}")
        return ctx.case(case, True)
    stats = {"n": 0}

    def on_schedule(picks, run, viol):
        stats["n"] += 1
        ctx.count("schedules")
        nontrivial = False
        if run is not None:
            ctx.count("deferred_deliveries_seen", run.deferred_events)
            ctx.count("early_arrivals_seen", run.early_arrivals)
            ctx.count("applications_stopped_while_others_run", run.stops)
            nontrivial = bool(run.deferred_events or run.early_arrivals or len(sc["requests"]) >= 2)
        hv = h64([case.get("inline") or case["scenario"], picks])
        ctx.all_hashes.add(hv)
        if nontrivial:
            ctx.nontrivial_hashes.add(hv)
        if viol is not None:
            key = KF_OUTLIVES if sc.get("outlives") else None
            ctx.fail({"kind": "replay", "scenario": case["scenario"], "inline": case.get("inline"), "name": sc["name"], "picks": list(picks),
                      "events": [list(e) for e in (run.events if run is not None else [])]},
                     f"scenario {sc['name']}, schedule {[list(e) for e in (run.events if run is not None else [])]}: {viol}", key=key)

    if case["kind"] == "generated":
        ctx.count("generated_scenarios")
        n, complete = se.explore_all(sc, on_schedule, limit=case["dfs_limit"])
        if complete:
            ctx.count("generated_scenarios_fully_enumerated")
        else:
            se.explore_random(sc, random.Random(case["seed"]), case["n"], on_schedule)
    elif case["kind"] == "dfs":
        n, complete = se.explore_all(sc, on_schedule, limit=case["limit"])
        ctx.count("scenarios_fully_enumerated" if complete else "scenarios_capped")
        if not complete:
            ctx.exhaustive = False
        case = dict(case, schedules=n, complete=complete)
    else:
        se.explore_random(sc, random.Random(case["seed"]), case["n"], on_schedule)
    ctx.evaluations += max(0, stats["n"] - 1)
    ctx.case(case, True)
