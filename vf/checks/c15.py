"""C15 — host/controller messages survive serialisation (L1).

Oracle: deserialize_host_msg(bytes(m)) / deserialize_return_msg(bytes(m)) gives the same message type
with the same field values; undefined array entries stay undefined.  Expected field values are the
ones of the case description (not read back from the constructed object), and the message type byte is
checked against a literal table.
"""
from __future__ import annotations

import itertools

from vf.harness import codec
from vf.ref import isa

PID = "C15"
LEVEL = "exploration"
RULE = ("all 5 host message types and 4 return message types x boundary-biased field values in their declared "
        "widths (uint32 app/msg ids, uint8 qubit counts / fidelities, int32 socket and node ids and register "
        "values); returned arrays of length 0..300 with EVERY undefined-pattern up to length 6 and random patterns "
        "above; subroutine messages carry random subroutines of all three flavours."
        ' Returned arrays of 65535 .. 2^18+3 (thorough: 2^21) entries at block boundaries (2^16, 2^17, 2^18 and one off), and arrays of 1025 .. 20000 entries made of RUNS (undefined / 0 / 1 / random) whose lengths sit at and around 8, 256, 1024. '
        "Non-trivial = the message has at "
        "least one payload field; distinct = distinct case description.")
ASSUMPTIONS = ["field values are inside the declared widths (out-of-range values are C16's subject)",
               "type bytes: host INIT=0 OPEN_EPR=1 SUBROUTINE=2 STOP=3 SIGNAL=4; return DONE=0 ERR=1 RET_ARR=2 RET_REG=3"]
SHARDS = {"quick": 1, "thorough": 16}
MIN_COUNTERS = {"undefined_entries_checked": 100, "messages_roundtripped": 500}

U32 = [0, 1, 2, 255, 256, 65535, 65536, 2**31 - 1, 2**31, 2**32 - 2, 2**32 - 1] + [1 << b for b in range(32)]
U8 = [0, 1, 2, 100, 127, 128, 254, 255]
I32 = [0, 1, -1, 127, 128, 255, 256, 65535, 65536, 2**31 - 1, -(2**31), -(2**31) + 1] + [1 << b for b in range(31)]
HOST_TYPE = {"init": 0, "open_epr": 1, "subroutine": 2, "stop": 3, "signal": 4}
RET_TYPE = {"done": 0, "err": 1, "ret_arr": 2, "ret_reg": 3}


def pick(rng, edge):
    return rng.choice(edge)


def cases(ctx):
    rng = ctx.rng
    k = 0

    def mine():
        nonlocal k
        k += 1
        return ctx.mine(k)

    for a in U32:
        for q in U8:
            if mine():
                yield {"kind": "init", "app_id": a, "max_qubits": q}
        if mine():
            yield {"kind": "stop", "app_id": a}
        if mine():
            yield {"kind": "done", "msg_id": a}
    n = ctx.n(400, 200000)
    for _ in range(n):
        yield {"kind": "open_epr", "app_id": pick(rng, U32), "epr_socket_id": pick(rng, I32),
               "remote_node_id": pick(rng, I32), "remote_epr_socket_id": pick(rng, I32),
               "min_fidelity": rng.randrange(256)}
    for i in range(256):
        if mine():
            yield {"kind": "open_epr", "app_id": i * 16843009 % 2**32, "epr_socket_id": i, "remote_node_id": -i,
                   "remote_epr_socket_id": i * 257, "min_fidelity": i}
    if mine():
        yield {"kind": "signal", "signal": "STOP"}
    for e in ("GENERAL", "NO_QUBIT", "UNSUPP"):
        if mine():
            yield {"kind": "err", "err_code": e}
    for b in "RCQM":
        for i in range(16):
            for v in (I32 if not ctx.quick else [0, -1, 2**31 - 1, -(2**31), 0x01020304]):
                if mine():
                    yield {"kind": "ret_reg", "reg": [b, i], "value": v}
    # returned arrays: every undefined-pattern up to length 6
    for ln in range(0, 7):
        for pat in itertools.product([0, 1], repeat=ln):
            if mine():
                vals = [None if p else rng.choice(I32) for p in pat]
                yield {"kind": "ret_arr", "address": pick(rng, I32), "values": vals}
    for _ in range(ctx.n(300, 80000)):
        ln = rng.choice([7, 8, 10, 16, 31, 32, 33, 64, 100, 255, 256, 257, 300]) if rng.random() < 0.5 else rng.randrange(7, 301)
        p_none = rng.choice([0.0, 0.1, 0.5, 0.9, 1.0])
        vals = [None if rng.random() < p_none else (rng.choice(I32) if rng.random() < 0.5 else rng.randint(-(2**31), 2**31 - 1))
                for _ in range(ln)]
        yield {"kind": "ret_arr", "address": pick(rng, I32), "values": vals}
    # entries that are integers but not builtin ints (a simulator backend hands measurement outcomes back as numpy scalars)
    for ty in ("int64", "int32", "uint8", "bool_"):
        for ln in (1, 6, 40):
            if mine():
                yield {"kind": "ret_arr_typed", "address": pick(rng, I32), "dtype": ty, "seed": rng.randrange(2**31), "length": ln}
    # long arrays (an entanglement-result array has 10 entries per pair): lengths around and beyond 2^16, by seed
    # (block-wise packing has its boundaries at powers of two of entries or bytes: exact multiples and one off, on both tiers)
    for ln in ([65535, 65536, 65537, 70000, 2**17 - 1, 2**17, 2**17 + 1, 2**18, 2**18 + 3] if ctx.quick else
               [65535, 65536, 65537, 70000, 2**17 - 1, 2**17, 2**17 + 1, 2**18 - 1, 2**18, 2**18 + 3, 3 * 2**17, 3 * 2**17 + 1, 2**19, 2**19 + 1,
                2**20, 2**20 + 5, 2**21]):
        if mine():
            yield {"kind": "ret_arr_long", "address": pick(rng, I32), "length": ln, "p_none": rng.choice([0.1, 0.5, 0.9]),
                   "seed": rng.randrange(2**31)}
    # medium and long arrays in which EVERY entry is defined (a filled result array), or every entry undefined, negative values included
    for ln in (1000, 4095, 4096, 4097, 5000, 20000):
        for p_none in (0.0, 1.0):
            if mine():
                yield {"kind": "ret_arr_long", "address": pick(rng, I32), "length": ln, "p_none": p_none, "seed": rng.randrange(2**31)}
    for _ in range(ctx.n(40, 6000)):
        if mine():
            yield {"kind": "ret_arr_long", "address": pick(rng, I32), "length": rng.choice([1025, 2048, 2049, 3000, 5000, 9000, 20000]),
                   "p_none": 0.5, "runs": True, "seed": rng.randrange(2**31)}
    for ln in (4, 64):
        if mine():
            yield {"kind": "threaded", "threads": 4, "length": ln, "rounds": 1500 if ctx.quick else 20000}
    # payloads that begin with (or consist of) bytes equal to a message type byte / other small values: the header of a subroutine
    # is version-major, version-minor, app id (2 bytes)
    for b0 in range(0, 8):
        for hdr in ([b0, b0, b0 * 257], [b0, 0, 0], [b0, 255, 65535]):
            if mine():
                yield {"kind": "subroutine", "flavour": "vanilla", "version": [hdr[0], hdr[1]], "app_id": hdr[2],
                       "instrs": [] if b0 % 2 else [["set", [["R", 2], b0 * 0x01010101]]]}
    for _ in range(ctx.n(200, 50000)):
        flav = rng.choice(["vanilla", "nv", "reids"])
        names = sorted(isa.TABLE[flav])
        ins = []
        for _ in range(rng.randrange(0, 20)):
            m = rng.choice(names)
            ins.append([m, codec.rand_values(rng, isa.TABLE[flav][m][1])])
        yield {"kind": "subroutine", "flavour": flav, "version": [rng.randrange(256), rng.randrange(256)],
               "app_id": rng.randrange(65536), "instrs": ins}


def _threaded(ctx, case):
    """Several controller threads serialise / deserialise returned arrays of the SAME length at the same time (one thread per
    application is the normal deployment): no message may pick up another thread's entries."""
    import sys
    import threading
    from netqasm.backend import messages as M
    n, ln, rounds = case["threads"], case["length"], case["rounds"]
    errors = []
    old = sys.getswitchinterval()
    sys.setswitchinterval(1e-6)
    barrier = threading.Barrier(n)

    def worker(t):
        vals = [(t + 1) * 1000 + i if (i + t) % 3 else None for i in range(ln)]
        barrier.wait()
        for r in range(rounds):
            back = M.deserialize_return_msg(bytes(M.ReturnArrayMessage(address=t, values=list(vals))))
            if back.values != vals or back.address != t:
                errors.append(f"thread {t} round {r}: sent {vals[:6]} @ {t}, got {back.values[:6]} @ {back.address}")
                return
    try:
        ths = [threading.Thread(target=worker, args=(t,)) for t in range(n)]
        for th in ths:
            th.start()
        for th in ths:
            th.join(60)
    finally:
        sys.setswitchinterval(old)
    ctx.count("threaded_roundtrips", n * rounds)
    if errors:
        ctx.fail(case, "concurrent serialisation of returned arrays mixes messages: " + errors[0])
    ctx.case(case, True)


def _long_array(ctx, case):
    import random
    from netqasm.backend import messages as M
    r = random.Random(case["seed"])
    if case.get("runs"):
        # RUNS of equal content (a result array that is filled block by block: whole stretches still undefined, stretches of
        # zeros, of ones, of random values), the run lengths at and around block sizes
        vals = []
        while len(vals) < case["length"]:
            n_ = r.choice([1, 2, 7, 8, 9, 255, 256, 257, 1023, 1024, 1025, 2048, 4096, r.randrange(1, 3000)])
            kind_ = r.choice(["none", "none", "zero", "zero", "one", "rand", "zero-or-none"])
            if kind_ == "rand":
                vals += [r.randint(-(2**31), 2**31 - 1) for _ in range(n_)]
            elif kind_ == "zero-or-none":
                vals += [r.choice([0, None]) for _ in range(n_)]
            else:
                vals += [{"none": None, "zero": 0, "one": 1}[kind_]] * n_
        if r.random() < 0.5:
            vals = vals[:case["length"]]
        ctx.count("long_arrays_made_of_runs")
    else:
        vals = [None if r.random() < case["p_none"] else r.randint(-(2**31), 2**31 - 1) for _ in range(case["length"])]
    back = M.deserialize_return_msg(bytes(M.ReturnArrayMessage(address=case["address"], values=list(vals))))
    ctx.count("long_arrays_roundtripped")
    ctx.count("undefined_entries_checked", sum(v is None for v in vals))
    if type(back) is not M.ReturnArrayMessage or back.address != case["address"]:
        ctx.fail(case, f"ret_arr of {len(vals)} entries comes back as {type(back).__name__} @ {getattr(back, 'address', None)}")
    elif back.values != vals:
        if len(back.values) != len(vals):
            what = f"{len(back.values)} entries"
        else:
            i = next(j for j, (a, b) in enumerate(zip(vals, back.values)) if a != b)
            what = f"entry {i} = {back.values[i]!r} instead of {vals[i]!r}"
        ctx.fail(case, f"ret_arr of {len(vals)} entries comes back with {what}")
    ctx.case(case, True)


def _typed_array(ctx, case):
    import random
    import numpy as np
    from netqasm.backend import messages as M
    r = random.Random(case["seed"])
    ty = getattr(np, case["dtype"])
    lo, hi = {"int64": (-2**31, 2**31 - 1), "int32": (-2**31, 2**31 - 1), "uint8": (0, 255), "bool_": (0, 1)}[case["dtype"]]
    plain = [None if r.random() < 0.3 else r.choice([lo, hi, 0, 1, r.randint(lo, hi)]) for _ in range(case["length"])]
    vals = [None if v is None else ty(v) for v in plain]
    ctx.count("typed_arrays_roundtripped")
    try:
        back = M.deserialize_return_msg(bytes(M.ReturnArrayMessage(address=case["address"], values=list(vals))))
    except Exception:
        ctx.count("typed_arrays_refused_loudly")      # refusing a non-builtin integer with an error is not a silent alteration
        return ctx.case(case, True)
    if back.values != plain:
        i = next((j for j, (a, b) in enumerate(zip(plain, back.values)) if a != b), None)
        ctx.fail(case, f"ret_arr with numpy.{case['dtype']} entries: entry {i} = {plain[i] if i is not None else '?'!r} comes back as "
                       f"{back.values[i] if i is not None and i < len(back.values) else None!r}")
    ctx.case(case, True)


def run_case(ctx, case):
    if case["kind"] == "ret_arr_typed":
        return _typed_array(ctx, case)
    if case["kind"] == "ret_arr_long":
        return _long_array(ctx, case)
    from netqasm.backend import messages as M
    kind = case["kind"]
    if kind == "threaded":
        return _threaded(ctx, case)
    ctx.count("messages_roundtripped")

    def consumed_then_again(back, decode, raw, cls, fields):
        """The receiver consumes / rewrites the message it decoded; identical bytes arriving later (the same returned array
        after each run of the same subroutine) must decode to the values the bytes carry, not to what the receiver left."""
        for name in fields:
            v = getattr(back, name, None)
            if isinstance(v, list):
                while v:
                    v.pop(0)
                v.append(-99)
            elif isinstance(v, int):
                try:
                    setattr(back, name, (v ^ 0x2A) & 0x7F)
                except (AttributeError, TypeError, ValueError):
                    pass
        ctx.count("decoded_again_after_receiver_consumed_the_first")
        again = decode(raw)
        # a receive buffer that is reused: the message decoded from it keeps its values when the next bytes overwrite the buffer
        buf = bytearray(raw)
        try:
            from_buf = decode(buf)
        except TypeError:
            ctx.count("bytearray_input_refused")      # (the documented input type is bytes; subroutine messages insist on it)
            from_buf = None
        if from_buf is not None:
            for i in range(len(buf)):
                buf[i] ^= 0x5A
            ctx.count("decoded_from_a_receive_buffer_that_is_then_overwritten")
            check_fields(from_buf, cls, fields, raw)
        check_fields(again, cls, fields, raw)

    def check_fields(msg, cls, fields, raw):
        if type(msg) is not cls:
            ctx.fail(case, f"{kind}: bytes decode as {type(msg).__name__}, not {cls.__name__}")
            return
        for name, want in fields.items():
            got = getattr(msg, name)
            if got != want:
                ctx.fail(case, f"{kind}: field {name} = {want} comes back as {got}")
                return

    if kind in HOST_TYPE:
        if kind == "init":
            m = M.InitNewAppMessage(app_id=case["app_id"], max_qubits=case["max_qubits"])
            cls, fields = M.InitNewAppMessage, {"app_id": case["app_id"], "max_qubits": case["max_qubits"]}
        elif kind == "stop":
            m = M.StopAppMessage(app_id=case["app_id"])
            cls, fields = M.StopAppMessage, {"app_id": case["app_id"]}
        elif kind == "open_epr":
            kw = {k: case[k] for k in ("app_id", "epr_socket_id", "remote_node_id", "remote_epr_socket_id", "min_fidelity")}
            m = M.OpenEPRSocketMessage(**kw)
            cls, fields = M.OpenEPRSocketMessage, kw
        elif kind == "signal":
            m = M.SignalMessage(M.Signal[case["signal"]])
            cls, fields = M.SignalMessage, {"signal": {"STOP": 0}[case["signal"]]}
        else:  # subroutine
            sub = codec.mk_subroutine(case["flavour"], case["version"], case["app_id"], case["instrs"])
            ref = isa.encode_subroutine(case["flavour"], case["version"], case["app_id"], case["instrs"])
            m = M.SubroutineMessage(sub)
            cls, fields = M.SubroutineMessage, {"subroutine": ref}
        raw = bytes(m)
        if raw[0] != HOST_TYPE[kind]:
            ctx.fail(case, f"{kind}: type byte {raw[0]} instead of {HOST_TYPE[kind]}")
        back = M.deserialize_host_msg(raw)
        check_fields(back, cls, fields, raw)
        if bytes(back) != raw:
            ctx.fail(case, f"{kind}: re-serialising the decoded message gives different bytes")
        if kind in ("init", "stop", "open_epr"):
            m.app_id = case["app_id"] ^ 0x55
            again = M.deserialize_host_msg(bytes(m))
            ctx.count("reserialised_after_update")
            if again.app_id != case["app_id"] ^ 0x55:
                ctx.fail(case, f"{kind}: after updating app_id the bytes still carry {again.app_id}")
        if type(back) is cls:
            consumed_then_again(back, M.deserialize_host_msg, raw, cls, fields)
        ctx.case(case, nontrivial=True)
        return

    if kind == "done":
        m = M.MsgDoneMessage(msg_id=case["msg_id"])
        cls, fields = M.MsgDoneMessage, {"msg_id": case["msg_id"]}
    elif kind == "err":
        m = M.ErrorMessage(M.ErrorCode[case["err_code"]])
        cls, fields = M.ErrorMessage, {"err_code": {"GENERAL": 0, "NO_QUBIT": 1, "UNSUPP": 2}[case["err_code"]]}
    elif kind == "ret_reg":
        from netqasm.lang.encoding import Register as CReg
        b, i = case["reg"]
        m = M.ReturnRegMessage(register=CReg(isa.BANKS[b], i), value=case["value"])
        cls, fields = M.ReturnRegMessage, {"value": case["value"]}
    elif kind == "ret_arr":
        m = M.ReturnArrayMessage(address=case["address"], values=list(case["values"]))
        cls, fields = M.ReturnArrayMessage, {"address": case["address"], "values": list(case["values"])}
        ctx.count("undefined_entries_checked", sum(v is None for v in case["values"]))
    else:
        raise ValueError(kind)
    raw = bytes(m)
    if raw[0] != RET_TYPE[kind]:
        ctx.fail(case, f"{kind}: type byte {raw[0]} instead of {RET_TYPE[kind]}")
    back = M.deserialize_return_msg(raw)
    check_fields(back, cls, fields, raw)
    if kind == "ret_reg" and type(back) is cls:
        got = [back.register.register_name, back.register.register_index]
        if got != [isa.BANKS[case["reg"][0]], case["reg"][1]]:
            ctx.fail(case, f"ret_reg: register {case['reg']} comes back as bank {got[0]} index {got[1]}")
    if kind == "ret_arr" and type(back) is cls:
        for a, b in zip(case["values"], back.values):
            if (a is None) != (b is None) or (a is not None and type(b) is not int):
                ctx.fail(case, f"ret_arr: entry {a!r} comes back as {b!r}")
                break
    if bytes(back) != raw:
        ctx.fail(case, f"{kind}: re-serialising the decoded message gives different bytes")
    if type(back) is cls:
        consumed_then_again(back, M.deserialize_return_msg, raw, cls, fields)
    if kind == "ret_arr" and case["values"]:
        # a message object whose fields are updated after it was framed once (len()/bytes()) must serialise
        # its *current* field values
        len(m)
        newvals = [None if v is not None else 7 for v in case["values"]]
        m.values[0] = newvals[0]            # (i) in-place edit of the live list
        again = M.deserialize_return_msg(bytes(m))
        ctx.count("reserialised_after_update")
        if again.values != [newvals[0]] + list(case["values"][1:]):
            ctx.fail(case, f"ret_arr: after an in-place edit of the values list the bytes still carry the old values ({again.values[:6]})")
        m.values[:] = newvals               # (ii) slice assignment, (iii) attribute assignment
        m.address = case["address"] ^ 1
        again = M.deserialize_return_msg(bytes(m))
        if again.values != newvals or again.address != (case["address"] ^ 1):
            ctx.fail(case, f"ret_arr: after updating the message fields, its bytes still carry the old values "
                           f"({again.address}, {again.values[:6]})")
    ctx.case(case, nontrivial=True)
