"""C07 — NV gate decompositions equal the vanilla gates they replace (executor + R-QUANTUM, exhaustive).

The emitted NV sequence is *executed on the real Executor* over the independent state-vector backend with the
4-qubit register (electron = id 0) maximally entangled to reference qubits, so one run yields the full unitary
of the sequence including the electron and all bystanders; it must equal gate (x) identity up to one global phase.
Published matrices (to_matrix / to_matrix_target_only) are compared with R-QUANTUM's operators.
"""
from __future__ import annotations

import numpy as np

from vf.harness import codec
from vf.harness.unitary import GateBench, ideal
from vf.ref import quantum as rq

PID = "C07"
LEVEL = "exploration"
RULE = ("enumerated: X,Y,Z,H,K,S,T on every virtual qubit 0..3; rot_x/y/z for all numerators 0..255 x denominators "
        "(quick: 0..8,16,31,32,64,255; thorough: 0..255) on the electron and on a carbon in simulation mode and "
        "all n x d in 0..4 under hardware angle normalisation; CNOT and CPHASE for all 12 ordered placements over "
        "ids 0..3; MOV both directions for every carbon; both debug settings; a scratch-register scenario with two "
        "carbon-carbon gates around a register write; published matrices of every vanilla/NV class (all n x d for "
        "rotations in the thorough tier). A case groups the 256 numerators of one (axis, d, qubit, mode); "
        "'rotations_checked' counts the individual (n, d) unitaries."
        ' Every other transpiled sequence is executed as a node receives it (bytes -> NV decoder). '
        "Non-trivial = every case (each compares at least "
        "one non-identity operator); distinct = distinct case description.")
ASSUMPTIONS = ["R-QUANTUM conventions: R_a(t) = exp(-i t sigma_a / 2); crot_a(t) = |0><0| (x) R_a(t) + |1><1| (x) R_a(-t), control first",
               "MOV is judged as state transfer onto a target in |0>; the source's final state is not specified",
               "equality up to one global phase with absolute tolerance 1e-9"]
SHARDS = {"quick": 4, "thorough": 16}
MIN_COUNTERS = {"rotations_checked": 2000, "two_qubit_unitaries": 10, "published_matrices": 50}
WALL_BUDGET = {"quick": 200, "thorough": 2400}

_bench = {}


def bench(nq=4):
    b = _bench.get(nq)
    if b is None:
        b = _bench[nq] = GateBench(nq)
    return b


def drop_bench():
    _bench.clear()


_wire = {"n": 0}


def transpiled(instrs, debug=False):
    """The NV subroutine for `instrs`; every other one is taken the way a node gets it: serialised and decoded with the NV flavour."""
    from netqasm.lang.parsing import deserialize
    from netqasm.sdk.transpile import NVSubroutineTranspiler
    sub = codec.mk_subroutine("vanilla", [0, 10], 0, instrs)
    out = NVSubroutineTranspiler(sub, debug=debug).transpile()
    # monitor: every position of the result is an instruction object of its own (passes that run after the expansion - the
    # transpiler's own branch re-targeting, a peephole of a back end - edit positions in place; an object listed at two
    # positions would be rewritten at both)
    seen = {}
    for pos, ins_ in enumerate(out.instructions):
        if id(ins_) in seen and _wire.get("shared") is None:
            _wire["shared"] = f"positions {seen[id(ins_)]} and {pos} of the transpiled subroutine are one instruction object ({ins_})"
        seen.setdefault(id(ins_), pos)
    _wire["n"] += 1
    if not debug and _wire["n"] % 2:
        _wire["ctx"].count("executed_as_received_over_the_wire")
        out = deserialize(bytes(out), flavour=codec.flavour_obj("nv"))
    return out


def no_vanilla_left(sub):
    from netqasm.lang.instr import vanilla
    for i in sub.instructions:
        if type(i).__module__ == vanilla.__name__:
            return str(i)
    return None


QS = list(range(4))
DS_QUICK = list(range(0, 9)) + [16, 31, 32, 64, 255]


def cases(ctx):
    k = 0

    def mine():
        nonlocal k
        k += 1
        return ctx.mine(k)
    for debug in (False, True):
        for g in "xyzhkst":
            for q in QS:
                if mine():
                    yield {"kind": "static1", "gate": g, "q": q, "debug": debug}
        for g in ("cnot", "cphase"):
            for a in QS:
                for b in QS:
                    if a != b and mine():
                        yield {"kind": "two", "gate": g, "a": a, "b": b, "debug": debug}
        for c in (1, 2, 3):
            for direction in ("e2c", "c2e"):
                if mine():
                    yield {"kind": "mov", "c": c, "dir": direction, "debug": debug}
            # electron -> carbon with operand registers the transpiler cannot resolve from this subroutine's text: Q registers
            # set by an earlier subroutine of the application, and R registers (what the SDK's NV multi-pair keep loop uses)
            for how in ("carried", "rregs", "rregs-collide"):
                if mine():
                    yield {"kind": "mov", "c": c, "dir": "e2c", "debug": debug, "operands": how}
    for g in ("cnot", "cphase"):
        for (a, b) in ((1, 2), (2, 3), (3, 1)):
            for (c, d) in ((2, 1), (1, 3), (3, 2)):
                if mine():
                    yield {"kind": "scratch", "gate": g, "first": [a, b], "second": [c, d]}
    ds = DS_QUICK if ctx.quick else list(range(256))
    for axis in "xyz":
        for d in ds:
            for q in (0, 1):
                if mine():
                    yield {"kind": "rot", "axis": axis, "d": d, "q": q, "mode": "sim", "debug": (d % 2 == 1)}
        for d in range(0, 5):
            for q in (0, 1):
                if mine():
                    yield {"kind": "rot", "axis": axis, "d": d, "q": q, "mode": "hw", "debug": False}
    rng = ctx.rng
    for _ in range(ctx.n(150, 100000) * ctx.nshards):
        if mine():
            n1, n2 = rng.choice([0, 1, 100, 127, 128, 200, 255, rng.randrange(256)]), rng.choice([1, 56, 100, 128, 200, 255, rng.randrange(256)])
            d = rng.choice([0, 1, 4, 7, 8, 9, 12, 31, rng.randrange(40)])
            yield {"kind": "rotpair", "axes": [rng.choice("xyz"), rng.choice("xyz")] if rng.random() < 0.4 else [rng.choice("xyz")] * 2,
                   "n": [n1, n2], "d": [d, d if rng.random() < 0.7 else rng.randrange(12)], "q": rng.choice([0, 1, 2]),
                   "third": rng.choice([None, "h", "x"])}
    # hand-written-style programs: the registers are set once, then several gates follow one another directly (one- and two-qubit
    # gates, the same registers again, two carbon-carbon gates in a row), on both debug settings
    for _ in range(ctx.n(120, 40000) * ctx.nshards):
        if mine():
            ids = rng.sample([0, 1, 2, 3], 3)
            gates = []
            for _g in range(rng.randrange(2, 6)):
                r = rng.random()
                if gates and gates[-1][0] in ("cnot", "cphase") and r < 0.35:
                    gates.append([rng.choice(["cnot", "cphase"]), list(gates[-1][1])])       # ... the same pair again
                elif r < 0.6:
                    gates.append([rng.choice(["cnot", "cphase"]), rng.sample([0, 1, 2], 2)])
                elif r < 0.8:
                    gates.append([rng.choice("xyzhkst"), [rng.randrange(3)]])
                else:
                    gates.append(["rot_" + rng.choice("xyz"), [rng.randrange(3)], rng.randrange(32), 4])
            yield {"kind": "gateseq", "ids": ids, "gates": gates, "debug": rng.random() < 0.5}
    for m in ("static", "rot", "crot"):
        if m == "static":
            if mine():
                yield {"kind": "matrix", "what": "static"}
        else:
            for d in (list(range(0, 7)) + [31, 255] if ctx.quick else list(range(256))):
                if mine():
                    yield {"kind": "matrix", "what": m, "d": d}


def _cmp(ctx, case, got_sv, want_sv, b, what):
    g, w = b.tensor(got_sv), b.tensor(want_sv)
    if not rq.eq_up_to_phase(g, w, 1e-9):
        ctx.fail(case, f"{what}: emitted NV sequence implements a different unitary (overlap |<ideal|got>|^2 = "
                       f"{rq.fidelity(g, w):.6f})")
        return False
    return True


def run_case(ctx, case):
    from netqasm.runtime.settings import set_is_using_hardware
    kind = case["kind"]
    _wire["ctx"] = ctx
    try:
        _run(ctx, case)
    except Exception:
        drop_bench()
        set_is_using_hardware(False)
        raise
    ctx.case(case, True)


def _run(ctx, case):
    from netqasm.runtime.settings import set_is_using_hardware
    kind = case["kind"]
    b = bench()
    if kind == "static1":
        g, q = case["gate"], case["q"]
        sub = transpiled([["set", [["Q", 0], q]], [g, [["Q", 0]]]], case["debug"])
        left = no_vanilla_left(sub)
        if left:
            ctx.fail(case, f"vanilla instruction survives transpilation: {left}")
            return
        got = b.run(sub, b.choi())
        ctx.count("single_qubit_unitaries")
        _cmp(ctx, case, got, ideal(b, [(rq.STATIC1[g], [q])]), b, f"{g} on qubit {q}")
    elif kind == "two":
        g, a, c = case["gate"], case["a"], case["b"]
        sub = transpiled([["set", [["Q", 0], a]], ["set", [["Q", 1], c]], [g, [["Q", 0], ["Q", 1]]]], case["debug"])
        left = no_vanilla_left(sub)
        if left:
            ctx.fail(case, f"vanilla instruction survives transpilation: {left}")
            return
        if _wire.get("shared"):
            ctx.fail(case, f"{g} control {a} target {c}: {_wire['shared']}: an in-place edit of one rewrites the other")
            _wire["shared"] = None
            return
        got = b.run(sub, b.choi())
        ctx.count("two_qubit_unitaries")
        _cmp(ctx, case, got, ideal(b, [(rq.STATIC2[g], [a, c])]), b, f"{g} control {a} target {c}")
        from vf.checks.c08 import electron_control
        d = electron_control(ctx, b.ex)
        if d:
            ctx.fail(case, f"{g} control {a} target {c}: {d}")
    elif kind == "scratch":
        # two carbon-carbon gates with a write to the register the first one borrowed in between
        g = case["gate"]
        (a1, b1), (a2, b2) = case["first"], case["second"]
        prog = [["set", [["Q", 0], a1]], ["set", [["Q", 1], b1]], [g, [["Q", 0], ["Q", 1]]],
                ["set", [["Q", 2], 3]], ["x", [["Q", 2]]],
                ["set", [["Q", 0], a2]], ["set", [["Q", 1], b2]], [g, [["Q", 0], ["Q", 1]]],
                ["z", [["Q", 2]]]]
        sub = transpiled(prog, False)
        got = b.run(sub, b.choi())
        ctx.count("two_qubit_unitaries", 2)
        want = ideal(b, [(rq.STATIC2[g], [a1, b1]), (rq.X, [3]), (rq.STATIC2[g], [a2, b2]), (rq.Z, [3])])
        _cmp(ctx, case, got, want, b, f"{g} {a1},{b1}; x 3; {g} {a2},{b2}; z 3 (register written between two carbon-carbon gates)")
    elif kind == "mov":
        c = case["c"]
        src, tgt = (0, c) if case["dir"] == "e2c" else (c, 0)
        how = case.get("operands")
        if how == "carried":
            hc_seed = codec.mk_subroutine("vanilla", [0, 10], 0, [["set", [["Q", 0], src]], ["set", [["Q", 1], tgt]]])
            from vf.harness import controller as hc
            hc.drive(b.ex.execute_subroutine(hc_seed), b.ex, None)
            sub = transpiled([["mov", [["Q", 0], ["Q", 1]]]], case["debug"])
        elif how == "rregs-collide":
            # ... while Q registers with the SAME indices hold other qubit ids (a register is its bank and its index)
            sub = transpiled([["set", [["Q", 1], tgt]], ["set", [["Q", 2], src]], ["set", [["R", 1], src]], ["set", [["R", 2], tgt]],
                              ["mov", [["R", 1], ["R", 2]]]], case["debug"])
        elif how == "rregs":
            sub = transpiled([["set", [["R", 1], src]], ["set", [["R", 2], tgt]], ["mov", [["R", 1], ["R", 2]]]], case["debug"])
        else:
            sub = transpiled([["set", [["Q", 0], src]], ["set", [["Q", 1], tgt]], ["mov", [["Q", 0], ["Q", 1]]]], case["debug"])
        left = no_vanilla_left(sub)
        if left:
            ctx.fail(case, f"vanilla instruction survives transpilation: {left}")
            return
        got = b.run(sub, b.choi(product_zero=(tgt,)))
        ctx.count("mov_transfers")
        labs = b.sys_labels()
        s1 = got.single_state(labs[src])
        if s1 is None:
            ctx.fail(case, f"mov {src}->{tgt}: the source stays entangled with the rest (state not transferred)")
            return
        # remove the source and compare the rest with the ideal transfer
        o = 0 if abs(s1[0]) >= abs(s1[1]) else 1
        got.remove(labs[src], o)
        want = ideal(b, [(rq.SWAP, [src, tgt])], product_zero=(tgt,))
        w1 = want.single_state(labs[src])
        want.remove(labs[src], 0 if abs(w1[0]) >= abs(w1[1]) else 1)
        order = [l for l in labs if l != labs[src]] + b.ref_labels()
        if not rq.eq_up_to_phase(got.vector(order), want.vector(order), 1e-9):
            ctx.fail(case, f"mov {src}->{tgt}: the target does not carry the source's state / a bystander changed "
                           f"(fidelity {rq.fidelity(got.vector(order), want.vector(order)):.6f})")
            return
        # the NV two-qubit operation is an electron-controlled rotation: the emitted sequence must be executable as such
        from vf.checks.c08 import electron_control
        d = electron_control(ctx, b.ex)
        if d:
            ctx.fail(case, f"mov {src}->{tgt} ({how or 'Q registers set in the subroutine'}): {d}")
    elif kind == "rot":
        axis, d, q = case["axis"], case["d"], case["q"]
        hw = case["mode"] == "hw"
        try:
            set_is_using_hardware(hw)
            for n in range(256):
                sub = transpiled([["set", [["Q", 0], q]], ["rot_" + axis, [["Q", 0], n, d]]], case["debug"])
                got = b.run(sub, b.choi())
                ctx.count("rotations_checked")
                want = ideal(b, [(rq.rot(axis, rq.angle_nd(n, d)), [q])])
                if not _cmp(ctx, {**case, "n": n}, got, want, b, f"rot_{axis} {n} {d} on qubit {q} ({case['mode']} mode)"):
                    break
        finally:
            set_is_using_hardware(False)
    elif kind == "rotpair":
        # legal vanilla code may apply several gates to the register it has just set (hand-written subroutines do)
        q = case["q"]
        prog = [["set", [["Q", 0], q]], ["rot_" + case["axes"][0], [["Q", 0], case["n"][0], case["d"][0]]],
                ["rot_" + case["axes"][1], [["Q", 0], case["n"][1], case["d"][1]]]]
        ops = [(rq.rot(case["axes"][0], rq.angle_nd(case["n"][0], case["d"][0])), [q]),
               (rq.rot(case["axes"][1], rq.angle_nd(case["n"][1], case["d"][1])), [q])]
        if case["third"]:
            prog.append([case["third"], [["Q", 0]]])
            ops.append((rq.STATIC1[case["third"]], [q]))
        got = b.run(transpiled(prog, False), b.choi())
        ctx.count("rotations_checked", 2)
        ctx.count("gate_sequences_checked")
        _cmp(ctx, case, got, ideal(b, ops), b, f"sequence {prog[1:]} on qubit {q}")
    elif kind == "gateseq":
        ids = case["ids"]
        prog = [["set", [["Q", r_], ids[r_]]] for r_ in range(3)]
        ops = []
        for g_ in case["gates"]:
            regs = [["Q", r_] for r_ in g_[1]]
            if g_[0].startswith("rot_"):
                prog.append([g_[0], regs + [g_[2], g_[3]]])
                ops.append((rq.rot(g_[0][-1], rq.angle_nd(g_[2], g_[3])), [ids[g_[1][0]]]))
            elif len(regs) == 2:
                prog.append([g_[0], regs])
                ops.append((rq.STATIC2[g_[0]], [ids[r_] for r_ in g_[1]]))
            else:
                prog.append([g_[0], regs])
                ops.append((rq.STATIC1[g_[0]], [ids[g_[1][0]]]))
        sub = transpiled(prog, case["debug"])
        left = no_vanilla_left(sub)
        if left:
            ctx.fail(case, f"vanilla instruction survives transpilation: {left}")
            return
        got = b.run(sub, b.choi())
        ctx.count("gate_sequences_checked")
        ctx.count("gates_in_sequences", len(ops))
        _cmp(ctx, case, got, ideal(b, ops), b, f"registers Q0..Q2 = qubits {ids}, then {case['gates']} (debug={case['debug']})")
    elif kind == "matrix":
        _matrices(ctx, case)
    else:
        raise ValueError(kind)


def _close(a, w):
    a = np.asarray(a, dtype=complex)
    return a.shape == w.shape and np.allclose(a, w, atol=1e-9)


def _matrices(ctx, case):
    from netqasm.lang.instr import nv, vanilla
    from netqasm.lang.operand import Immediate
    reg = codec.mk_reg(["Q", 0])
    reg1 = codec.mk_reg(["Q", 1])
    if case["what"] == "static":
        table = [(vanilla.GateXInstruction, rq.X), (vanilla.GateYInstruction, rq.Y), (vanilla.GateZInstruction, rq.Z),
                 (vanilla.GateHInstruction, rq.H), (vanilla.GateKInstruction, rq.K), (vanilla.GateSInstruction, rq.S),
                 (vanilla.GateTInstruction, rq.T), (nv.GateXInstruction, rq.X), (nv.GateYInstruction, rq.Y),
                 (nv.GateZInstruction, rq.Z), (nv.GateHInstruction, rq.H)]
        for cls, w in table:
            ctx.count("published_matrices")
            if not _close(cls(reg=reg).to_matrix(), w):
                ctx.fail(case, f"{cls.__module__.split('.')[-1]}.{cls.__name__}.to_matrix() is not the {cls.mnemonic} operator")
        for cls, w, wt in ((vanilla.CnotInstruction, rq.CNOT, rq.X), (vanilla.CphaseInstruction, rq.CZ, rq.Z)):
            i = cls(reg0=reg, reg1=reg1)
            ctx.count("published_matrices")
            if not _close(i.to_matrix(), w) or not _close(i.to_matrix_target_only(), wt):
                ctx.fail(case, f"vanilla.{cls.__name__} publishes a wrong matrix")
        ctx.count("published_matrices")
        if not _close(vanilla.MovInstruction(reg0=reg, reg1=reg1).to_matrix(), rq.SWAP):
            ctx.fail(case, "vanilla.MovInstruction.to_matrix() is not the SWAP it documents")
        # a consumer works in place on the matrices the package's gate_to_matrix() hands out (conjugates them, say); what is
        # published afterwards - the static gates and the rotations built from the Pauli matrices - is still the operator
        from netqasm.lang.ir import GenericInstr
        from netqasm.util.quantum_gates import gate_to_matrix
        for gi in (GenericInstr.X, GenericInstr.Y, GenericInstr.Z, GenericInstr.H, GenericInstr.K, GenericInstr.S, GenericInstr.T):
            try:
                m_ = gate_to_matrix(gi)
                m_ *= 1j
                m_[0, 0] += 3
                ctx.count("static_matrices_scribbled_by_a_consumer")
            except (TypeError, ValueError, KeyError):
                pass
        for cls, w in table:
            if not _close(cls(reg=reg).to_matrix(), w):
                ctx.fail(case, f"after a consumer edited the matrix gate_to_matrix() gave it, {cls.__name__}.to_matrix() is not the {cls.mnemonic} operator")
                return
        for axis, cname in (("x", "RotXInstruction"), ("y", "RotYInstruction"), ("z", "RotZInstruction")):
            if not _close(getattr(vanilla, cname)(reg=reg, imm0=Immediate(3), imm1=Immediate(2)).to_matrix(), rq.rot(axis, rq.angle_nd(3, 2))):
                ctx.fail(case, f"after a consumer edited the matrices gate_to_matrix() gave it, vanilla.{cname}(3,2).to_matrix() is not R_{axis}(3pi/4)")
                return
        return
    d = case["d"]
    for n in range(256):
        th = rq.angle_nd(n, d)
        if case["what"] == "rot":
            for mod in (vanilla, nv):
                for axis, cname in (("x", "RotXInstruction"), ("y", "RotYInstruction"), ("z", "RotZInstruction")):
                    i = getattr(mod, cname)(reg=reg, imm0=Immediate(n), imm1=Immediate(d))
                    ctx.count("published_matrices")
                    if not _close(i.to_matrix(), rq.rot(axis, th)):
                        ctx.fail({**case, "n": n}, f"{mod.__name__.split('.')[-1]}.{cname}({n},{d}).to_matrix() is not R_{axis}({n}pi/2^{d})")
                        return
                    if n % 8 == 5:
                        # the numerator / denominator are values the host read from an earlier result (ints whose value lives in
                        # __int__, as the SDK accepts for rot_X(n=outcome, ..)): the published matrix is that of the values
                        from vf.harness.hostdiff import _HostValue
                        hv = getattr(mod, cname)(reg=reg, imm0=Immediate(_HostValue(n)), imm1=Immediate(_HostValue(d)))
                        ctx.count("published_matrices_for_host_value_operands")
                        if not _close(hv.to_matrix(), rq.rot(axis, th)):
                            ctx.fail({**case, "n": n}, f"{mod.__name__.split('.')[-1]}.{cname} with numerator {n} and denominator {d} given as host values "
                                                       f"(it prints as {hv}) publishes a matrix that is not R_{axis}({n}pi/2^{d})")
                            return
                    if n % 8 == 3:
                        # a consumer of the published matrix: compares it (the package's own up-to-phase comparison) with the same
                        # operator in another global phase, and works in place on what it was handed - the NEXT request for the
                        # matrix, and the controlled rotation built from the same angle, still publish the operator
                        from netqasm.util.quantum_gates import are_matrices_equal
                        handed = i.to_matrix()
                        are_matrices_equal(np.exp(0.7j) * rq.rot(axis, th), handed)
                        ctx.count("published_matrices_used_by_a_consumer")
                        # (neither what the comparison answers - it anchors on the first non-zero entry, which for angles like 131 pi
                        # is rounding noise - nor what it does to the array it was handed is judged: only what is published afterwards)
                        try:
                            handed *= 1j
                        except (TypeError, ValueError):
                            pass
                        again = getattr(mod, cname)(reg=reg, imm0=Immediate(n), imm1=Immediate(d)).to_matrix()
                        ctl = [nv.ControlledRotXInstruction, nv.ControlledRotYInstruction][axis == "y"](
                            reg0=reg, reg1=reg1, imm0=Immediate(n), imm1=Immediate(d)).to_matrix() if axis in "xy" else None
                        if not _close(again, rq.rot(axis, th)) or (ctl is not None and not _close(ctl, rq.crot(axis, th))):
                            ctx.fail({**case, "n": n}, f"after a consumer worked on the matrix published for rot_{axis}({n},{d}), the next request "
                                                       f"for it (or for the controlled rotation by the same angle) publishes another operator")
                            return
        else:
            for axis, cname in (("x", "ControlledRotXInstruction"), ("y", "ControlledRotYInstruction")):
                i = getattr(nv, cname)(reg0=reg, reg1=reg1, imm0=Immediate(n), imm1=Immediate(d))
                ctx.count("published_matrices")
                if not _close(i.to_matrix(), rq.crot(axis, th)) or not _close(i.to_matrix_target_only(), rq.rot(axis, th)):
                    ctx.fail({**case, "n": n}, f"nv.{cname}({n},{d}) publishes a matrix that is not the controlled {axis}-rotation")
                    return


def finish(ctx):
    # thorough tier enumerates every gate x placement x (n, d); it is exhaustive unless the wall budget cut a shard short
    if not ctx.quick and "budget_stop" not in ctx.notes:
        ctx.exhaustive = True
