"""C14 — compiling never runs out of registers because of finished operations (L3, long histories).

Monitors:
  * icontract snapshot/ensure around every completed top-level SDK operation issued by the harness: the set of
    active classical registers of the connection's builder must be the same after the operation as before it
    (operations that hand a register to the host — new_register — are "open" by construction and excluded);
  * an icontract postcondition on MemoryManager.get_inactive_register: the register it returns was not active;
  * compilation of the n-th operation must succeed;
  * end-to-end results of the whole history (shared R-HOST oracle of C05): a temporary that overwrites a live
    register of an enclosing operation shows up as a wrong result.
"""
from __future__ import annotations

from vf.gen.host import HostGen
from vf.harness import hostdiff
from vf.ref import hostlang as hl

PID = "C14"
LEVEL = "exploration"
RULE = ("histories of 120-400 (quick) / up to 2000 (thorough) completed top-level SDK operations of every kind (if_* in "
        "both forms on Future/RegFuture/int, loop, loop_body, foreach, enumerate, loop_until, add, measure into "
        "futures/registers/entries, arrays) on ONE connection with a flush after every k-th operation (k in 1..8), "
        "plus deep-nesting programs (nesting 5..10, up to the register budget)."
        ' EPR histories include create/recv contexts, fidelity-constrained keeps whose first attempt is rejected (retry loop with clean-up code) and Array.undefine(). '
        ' Plus a finished register-hungry construct (6-12 nested or explicit-register loops) followed in the same flush segment by an operation with several literal operands. '
        "Non-trivial = the history completed >= "
        "40 operations on one connection and executed at least one body; distinct = distinct (history, script).")
ASSUMPTIONS = [
    "registers handed to the host by new_register() stay allocated by design and are excluded from the balance",
    "R-HOST gives the expected end-to-end results (see C05)",
    "known finding regfuture-across-flush is shared with C05 (not exercised here: histories do not keep manual registers across flushes)",
    "host-side handle reads are C05's subject and are not judged here; results are compared on the controller (arrays, registers, applied operations)",
]
SHARDS = {"quick": 4, "thorough": 16}
MIN_COUNTERS = {"operations_balanced": 2000, "get_inactive_register_calls": 1000}
MIN_NONTRIVIAL = {"quick": 8, "thorough": 100}
WALL_BUDGET = {"quick": 250, "thorough": 2400}

_state = {"ctx": None, "viol": None}


class RegisterLeak(Exception):
    pass


def setup(ctx):
    import icontract
    from netqasm.sdk import memmgr
    _state["ctx"] = ctx
    if _state.get("installed"):
        return

    def returned_register_was_free(self, activate, result, OLD):
        _state["ctx"].count("get_inactive_register_calls")
        if result in OLD.active:
            _state["viol"] = f"get_inactive_register returned {result}, which was already active ({sorted(map(str, OLD.active))})"
        return True

    def active_before(self):
        return set(self._active_registers)

    fn = memmgr.MemoryManager.get_inactive_register
    fn = icontract.ensure(returned_register_was_free, error=RegisterLeak)(fn)
    fn = icontract.snapshot(active_before, name="active")(fn)
    memmgr.MemoryManager.get_inactive_register = fn
    _state["installed"] = True


def make_monitor(ctx, case):
    import icontract

    def active_regs(drv, st):
        mm = drv.conn.builder._mem_mgr
        return (set(mm._active_registers), {r for r, u in mm._used_meas_registers.items() if u})

    def balanced(drv, st, OLD):
        ctx.count("operations_balanced")
        mm = drv.conn.builder._mem_mgr
        now = set(mm._active_registers)
        m_now = {r for r, u in mm._used_meas_registers.items() if u}
        old_r, old_m = OLD.regs
        # measurement registers: only an operation that hands an M register to the host (a register measurement) may keep one
        keeps_m = _has_reg_measure(st)
        if not keeps_m and m_now != old_m:
            _state["viol"] = (f"completed operation {st['op']} changed the set of measurement registers in use: kept "
                              f"{sorted(map(str, m_now - old_m))} (now {len(m_now)} of 16 in use)")
            return True
        OLD_regs = old_r
        if st["op"] == "reg":
            return True
        if now != OLD_regs:
            leaked = sorted(map(str, now - OLD_regs))
            lost = sorted(map(str, OLD_regs - now))
            _state["viol"] = (f"completed operation {st['op']}{'/' + st.get('cond', '') if st['op'] == 'if' else ''} changed the set of "
                              f"active registers: leaked {leaked} released {lost} (now {len(now)} of 16 in use)")
        return True

    @icontract.snapshot(active_regs, name="regs")
    @icontract.ensure(balanced, error=RegisterLeak)
    def issue(drv, st):
        drv.stmt(st)

    def on_top(drv, st):
        issue(drv, st)
        if _state["viol"]:
            v, _state["viol"] = _state["viol"], None
            raise RegisterLeak(v)

    def nested_balanced(drv, st, OLD):
        # an operation completed inside the body of an enclosing loop / conditional: it must neither keep a register nor give
        # back one it did not take (the enclosing operation's counter or operand registers are live around it)
        ctx.count("nested_operations_balanced")
        mm = drv.conn.builder._mem_mgr
        now = set(mm._active_registers)
        old_r, _ = OLD.regs
        if st["op"] != "reg" and now != old_r:
            _state["viol"] = (f"operation {st['op']} completed inside an enclosing operation changed the set of active registers: kept "
                              f"{sorted(map(str, now - old_r))} released {sorted(map(str, old_r - now))}")
        return True

    @icontract.snapshot(active_regs, name="regs")
    @icontract.ensure(nested_balanced, error=RegisterLeak)
    def issue_nested(drv, st):
        drv.stmt(st)

    def on_nested(drv, st):
        issue_nested(drv, st)
        if _state["viol"]:
            v, _state["viol"] = _state["viol"], None
            raise RegisterLeak(v)
    on_top.nested = on_nested
    return on_top


def _has_reg_measure(st):
    if st["op"] == "meas" and st["to"]["kind"] == "reg":
        return True
    return any(_has_reg_measure(x) for x in st.get("body", []) + (st.get("cleanup") or []))


def cases(ctx):
    rng = ctx.rng
    nhist = ctx.n(16, 400)
    for _ in range(nhist):
        g = HostGen(rng, max_depth=rng.choice([2, 3]), allow_regs=False)
        g.reg_operands = True
        g.p_cond_regmeas = 0.0
        g.p_empty_body = rng.choice([0.0, 0.1, 0.3])      # operations whose body compiles to nothing are completed operations too
        k = rng.choice([1, 2, 3, 4, 5, 6, 7, 8])
        nops = rng.choice([120, 200, 300, 400]) if ctx.quick else rng.choice([300, 600, 1000, 2000])
        from vf.gen.host import Scope
        sc = Scope()
        prog = [{"op": "array", "name": "a0", "init": [rng.choice([0, 1, 2, 3]) for _ in range(3)]}]
        sc.arrays["a0"] = {"len": 3, "full": True}
        done = 0
        while done < nops:
            st = g.block(sc, 1, 1, top=True)
            prog += st
            done += len(st)
            if done % k == 0 or rng.random() < 1.0 / (2 * k):
                prog.append({"op": "flush"})
                sc.regs = []
        yield {"kind": "history", "k": k, "prog": prog, "script": [rng.randrange(2) for _ in range(64)]}
    for _ in range(ctx.n(10, 300)):
        # register handles (from register measurements: recycled at every flush) used as add targets / operands inside loops,
        # together with the loop's own counter and further operations that need temporaries
        prog = [{"op": "array", "name": "a0", "init": [0, 1, 2]}]
        for j in range(rng.choice([15, 30, 50])):
            q, mr, i = f"q{j}", f"mr{j}", f"i{j}"
            prog += [{"op": "qalloc", "q": q}, {"op": "gate", "g": rng.choice(["x", "h"]), "q": q},
                     {"op": "meas", "q": q, "to": {"kind": "reg", "name": mr}, "inplace": False}]
            body = []
            for _k in range(rng.randrange(1, 4)):
                tgt = rng.choice([{"kind": "reg", "name": mr}, {"kind": "entry", "array": "a0", "idx": rng.randrange(3)}])
                other = rng.choice([{"kind": "var", "name": i}, 1, {"kind": "reg", "name": mr}, {"kind": "entry", "array": "a0", "idx": rng.randrange(3)}])
                body.append({"op": "add", "target": tgt, "other": other, "mod": rng.choice([None, None, 3])})
            kind = rng.choice(["loop", "loop", "foreach"])
            if kind == "loop":
                prog.append({"op": "loop", "var": i, "start": 0, "stop": rng.choice([1, 2, 3]), "step": 1, "form": rng.choice(["ctx", "cb"]), "body": body})
            else:
                body = [b if not (isinstance(b["other"], dict) and b["other"].get("kind") == "var") else dict(b, other={"kind": "fut", "name": "e" + i}) for b in body]
                prog.append({"op": "foreach", "array": "a0", "var": "e" + i, "idxvar": None, "body": body})
            prog.append({"op": "flush"})
        yield {"kind": "regloops", "k": 1, "prog": prog, "script": [rng.randrange(2) for _ in range(64)]}
    for _ in range(ctx.n(8, 200)):
        # bursts of register measurements: M registers are classical registers too and must be recycled per flush
        k = rng.choice([1, 2, 3, 5, 8, 12, 16])
        prog = []
        for j in range(rng.choice([40, 60, 100])):
            q = f"q{j}"
            style = rng.choice(["reg", "reg", "array-inplace", "array"])
            prog += [{"op": "qalloc", "q": q}, {"op": "gate", "g": rng.choice(["x", "h"]), "q": q}]
            if style == "reg":
                prog += [{"op": "meas", "q": q, "to": {"kind": "reg", "name": f"mr{j}"}, "inplace": False}]
            elif style == "array":
                prog += [{"op": "meas", "q": q, "to": {"kind": "new", "name": f"m{j}"}, "inplace": False}]
            else:
                prog += [{"op": "meas", "q": q, "to": {"kind": "new", "name": f"m{j}"}, "inplace": True},
                         {"op": "meas", "q": q, "to": {"kind": "entry", "array": f"m{j}", "idx": 0}, "inplace": True},
                         {"op": "meas", "q": q, "to": {"kind": "new", "name": f"mm{j}"}, "inplace": False}]
            if (j + 1) % k == 0:
                prog.append({"op": "flush"})
        yield {"kind": "mburst", "k": k, "prog": prog, "script": [rng.randrange(2) for _ in range(128)]}
    for _ in range(ctx.n(12, 400)):
        # histories of completed EPR operations (keep + measure, measure-directly, remote state preparation)
        k = rng.choice([1, 2, 3, 5])
        ops = []
        for _j in range(rng.choice([40, 80, 120]) if ctx.quick else rng.choice([100, 200, 400])):
            kind = rng.choice(["create_keep", "recv_keep", "create_measure", "recv_measure", "create_rsp", "recv_rsp", "recv_keep_info",
                               "create_context", "recv_context", "create_keep_fid", "recv_keep_fid", "array_undefine", "create_keep_info"])
            ops.append([kind, rng.choice([1, 1, 2, 3]) if "measure" in kind or "rsp" == kind[-3:] and kind.startswith("create") else rng.choice([1, 2])])
        hw = rng.choice(["generic", "generic", "nv"])
        if hw == "nv":
            # (on NV the context / fidelity-constrained forms are the subject of C09's and C10's known findings)
            ops = [o for o in ops if o[0] not in ("create_context", "recv_context", "create_keep_fid", "recv_keep_fid")]
        yield {"kind": "epr-history", "k": k, "ops": ops, "hardware": hw}
    kk = 0
    for shape in ("nested", "sequential"):
        for depth in (6, 9, 11, 12):
            for then in ("create_keep", "recv_measure", "add"):
                for order in ("loops-first", "op-first"):
                    kk += 1
                    if ctx.mine(kk):
                        yield {"kind": "finished-then-op", "shape": shape, "depth": depth, "then": then, "order": order}
    for _ in range(ctx.n(40, 2000)):
        depth = rng.choice([5, 6, 7, 8, 9, 10])
        yield {"kind": "deep", "depth": depth, "prog": deep_program(rng, depth), "script": [rng.randrange(2) for _ in range(16)]}


def deep_program(rng, depth):
    """Nesting `depth` constructs, each holding a register while the inner ones are built."""
    prog = [{"op": "array", "name": "a0", "init": [rng.choice([1, 2, 3]) for _ in range(2)]},
            {"op": "array", "name": "c0", "init": [0]}]
    inner = [{"op": "add", "target": {"kind": "entry", "array": "c0", "idx": 0}, "other": 1, "mod": None}]
    body = inner
    for d in range(depth):
        kind = rng.choice(["loop", "foreach", "if", "loop", "until"])
        if kind == "loop":
            body = [{"op": "loop", "var": f"i{d}", "start": 0, "stop": rng.choice([1, 2]), "step": 1,
                     "form": rng.choice(["ctx", "cb"]), "body": body + [
                         {"op": "add", "target": {"kind": "entry", "array": "c0", "idx": 0}, "other": {"kind": "var", "name": f"i{d}"}, "mod": None}]}]
        elif kind == "foreach":
            body = [{"op": "foreach", "array": "a0", "var": f"e{d}", "idxvar": f"j{d}" if rng.random() < 0.5 else None, "body": body + [
                {"op": "add", "target": {"kind": "entry", "array": "c0", "idx": 0}, "other": {"kind": "fut", "name": f"e{d}"}, "mod": None}]}]
        elif kind == "if":
            body = [{"op": "if", "cond": rng.choice(["ge", "nz", "ne", "lt"]), "a": {"kind": "entry", "array": "a0", "idx": 0},
                     "b": rng.choice([0, 5]), "form": rng.choice(["ctx", "cb"]), "body": body}]
            if body[0]["cond"] == "nz":
                body[0]["b"] = None
        else:
            body = [{"op": "until", "max": 2, "var": f"w{d}", "body": body,
                     "exit": {"val": {"kind": "entry", "array": "c0", "idx": 0}, "atmost": rng.choice([-5, 1000])}}]
    return prog + body + [{"op": "add", "target": {"kind": "entry", "array": "c0", "idx": 0}, "other": 100, "mod": None}]


def _epr_history(ctx, case):
    """Completed EPR operations in a long row on one connection: the active-register set must be unchanged by each,
    every flush must release all measurement registers, compilation must keep succeeding and the controller must run."""
    from netqasm.sdk.epr_socket import EPRSocket
    from vf.harness import controller as hc
    from vf.harness.link import LinkModel, PlannedRequest
    from vf.harness.pipeline import Pipe
    plan = []
    for j, (kind, n) in enumerate(case["ops"]):
        if kind == "array_undefine":
            continue
        role = "create" if kind.startswith("create") else "recv"
        tp = "M" if "measure" in kind else ("R" if "rsp" in kind else "K")
        if kind.endswith("_fid"):
            # fidelity-constrained keep: the first attempt of every third such request is rejected (goodness = generation
            # time too high), so the retry loop and its clean-up code really run
            if j % 3 == 0:
                plan.append(PlannedRequest(role, "K", n, fields=(lambda k, name: 60000 if name == "goodness" else None)))
            plan.append(PlannedRequest(role, "K", n, fields=(lambda k, name: 100 if name == "goodness" else None)))
            continue
        plan.append(PlannedRequest(role, tp, 1 if kind == "recv_rsp" else n))
    es = EPRSocket("bob")
    link = LinkModel(plan, partners=False)
    hw = case["hardware"]
    # the handles of a context block stay active in the SDK (C09's known finding epr-context:placeholder-qubits-stay-active), so
    # every context operation uses up virtual ids for good: the unit module is sized for them (registers are this check's subject)
    spare = sum(n for kind, n in case["ops"] if kind.endswith("_context"))
    pipe = Pipe(epr_sockets=[es], link=link, max_qubits=(5 if hw == "generic" else 4) + spare, hardware=hw, script=[0, 1] * 64, step_limit=2000000)
    conn = pipe.conn
    mm = conn.builder._mem_mgr
    done = 0
    try:
        for i, (kind, n) in enumerate(case["ops"]):
            before = set(mm._active_registers)
            try:
                if kind == "create_keep":
                    for q in es.create_keep(n):
                        q.measure()
                elif kind == "recv_keep":
                    for q in es.recv_keep(n):
                        q.measure()
                elif kind == "recv_keep_info":
                    for q in es.recv_keep_with_info(n)[0]:
                        q.measure()
                elif kind == "create_measure":
                    es.create_measure(n)
                elif kind == "recv_measure":
                    es.recv_measure(n)
                elif kind == "create_rsp":
                    es.create_rsp(n)
                elif kind == "recv_rsp":
                    for q in es.recv_rsp(1):
                        q.measure()
                elif kind == "create_keep_info":
                    for q in es.create_keep_with_info(n)[0]:
                        q.measure()
                elif kind in ("create_context", "recv_context"):
                    cm = (es.create_context if kind == "create_context" else es.recv_context)(number=n, sequential=True)
                    with cm as (q, pair):
                        q.measure()
                    ctx.count("epr_context_operations")
                elif kind in ("create_keep_fid", "recv_keep_fid"):
                    fn = es.create_keep if kind == "create_keep_fid" else es.recv_keep
                    for q in fn(n, min_fidelity_all_at_end=80, max_tries=3):
                        q.measure()
                    ctx.count("epr_fidelity_constrained_operations")
                elif kind == "array_undefine":
                    arr = conn.new_array(n + 1, init_values=[7] * (n + 1))
                    arr.undefine()
                    ctx.count("array_undefine_operations")
            except (AssertionError, ValueError) as e:
                if hw == "nv":
                    ctx.count("sdk_build_time_refusals_nv")
                    return ctx.case({"kind": "epr-history", "nops": i, "k": case["k"], "hardware": hw, "digest": hash_prog(case["ops"])}, False)
                ctx.fail(case, f"EPR operation {i} ({kind} x{n}) after {i} completed operations could not be compiled: {type(e).__name__}: {e}")
                return ctx.case(case, True)
            except RuntimeError as e:
                ctx.fail(case, f"EPR operation {i} ({kind} x{n}) after {i} completed operations could not be compiled: {e}")
                return ctx.case(case, True)
            ctx.count("operations_balanced")
            ctx.count("epr_operations_balanced")
            now = set(mm._active_registers)
            if now != before:
                ctx.fail(case, f"completed EPR operation {i} ({kind} x{n}) changed the set of active registers: leaked "
                               f"{sorted(map(str, now - before))} released {sorted(map(str, before - now))}")
                return ctx.case(case, True)
            done += 1
            if done % case["k"] == 0:
                conn.flush()
                used = [str(r) for r, u in mm._used_meas_registers.items() if u]
                if used:
                    ctx.fail(case, f"after a flush the measurement registers {used} are still marked in use")
                    return ctx.case(case, True)
        conn.flush()
        conn.close()
    except (hc.ControllerFault, hc.Deadlock, hc.StepLimit) as e:
        ctx.fail(case, f"controller failed while running a history of completed EPR operations (after {done}): {e}")
        return ctx.case(case, True)
    ctx.count("top_level_operations", done)
    ctx.case({"kind": "epr-history", "nops": done, "k": case["k"], "hardware": hw, "digest": hash_prog(case["ops"]),
              "first_operations": case["ops"][:6]}, done >= 40)


KF_SCRATCH = "assembler-scratch:registers-of-finished-operations-stay-excluded-until-the-flush"


def _finished_then_op(ctx, case):
    """A finished operation that needed many registers (nested or explicit loop registers, all closed again), then - in the same
    flush segment - an operation with several literal operands (create_keep, recv_measure, add with modulus)."""
    from netqasm.sdk.epr_socket import EPRSocket
    from netqasm.sdk.qubit import Qubit
    from vf.harness import controller as hc
    from vf.harness.link import LinkModel, PlannedRequest
    from vf.harness.pipeline import Pipe
    es = EPRSocket("bob")
    kind = case["then"]
    plan = [PlannedRequest("create" if kind == "create_keep" else "recv", "K" if kind == "create_keep" else "M", 1)] if kind != "add" else []
    pipe = Pipe(epr_sockets=[es], link=LinkModel(plan, partners=False), max_qubits=3, step_limit=2000000)
    conn = pipe.conn
    mm = conn.builder._mem_mgr

    def nest(d, q):
        if d == 0:
            q.H()
            return
        with conn.loop(2):
            nest(d - 1, q)

    def second():
        if kind == "create_keep":
            es.create_keep(1)[0].measure()
        elif kind == "recv_measure":
            es.recv_measure(1)
        else:
            conn.new_array(1, init_values=[1]).get_future_index(0).add(1, mod=2)
    try:
        q = Qubit(conn)
        if case["order"] == "op-first":
            second()
        if case["shape"] == "nested":
            nest(case["depth"], q)
        else:
            for i in range(case["depth"]):
                with conn.loop(2, loop_register=f"R{15 - i}"):
                    q.H()
        if case["order"] == "loops-first":
            second()
        open_regs = len(mm._active_registers)
        ctx.count("finished_then_op_cases")
        try:
            conn.flush()
        except RuntimeError as e:
            if "no registers left" in str(e):
                ctx.fail(case, f"{case['depth']} {case['shape']} loops (all closed) and then {kind} in one flush segment cannot be compiled although only "
                               f"{open_regs} register(s) are held by open operations: {e}", key=KF_SCRATCH)
                return ctx.case(case, True)
            raise
        q.measure()
        conn.close()
    except (hc.ControllerFault, hc.Deadlock, hc.StepLimit) as e:
        ctx.fail(case, f"controller failed: {e}")
    ctx.case(case, True)


def run_case(ctx, case):
    _state["ctx"] = ctx
    _state["viol"] = None
    if case["kind"] == "finished-then-op":
        return _finished_then_op(ctx, case)
    if case["kind"] == "epr-history":
        return _epr_history(ctx, case)
    prog, script = case["prog"], case["script"]
    mon = make_monitor(ctx, case)
    nops = sum(1 for s in prog if s["op"] != "flush")

    def fail(what, key):
        # a compile failure of a valid program is the property's main refutation
        ctx.fail(case, what, key=key)
    try:
        def after_flush(si, pipe, drv):
            mm = drv.conn.builder._mem_mgr
            used = [str(r) for r, u in mm._used_meas_registers.items() if u]
            ctx.count("flushes_checked_for_M_registers")
            if used:
                ctx.fail(case, f"after flush {si} the measurement registers {used} are still marked in use "
                               f"(they are handed out again only if released at every flush)")
        res = hostdiff.run_differential(prog, script, fail, ctx.count, on_top=mon, on_nested=mon.nested, step_bound=400000, on_segment=after_flush,
                                        pipe_kw={"step_limit": 2000000}, check_host_handles=False,
                                        neighbours="loops" if ctx.evaluations % 3 == 1 else False)
    except hostdiff.Discard as d:
        ctx.count("discarded_" + str(d).split(":")[0].replace(" ", "_"))
        return ctx.case({"kind": case["kind"], "nops": nops, "k": case.get("k"), "depth": case.get("depth"),
                         "digest": hash_prog(prog)}, False)
    ref = res.get("ref")
    nontrivial = bool(res.get("ok") is not False and ref is not None and (nops >= 40 or case["kind"] == "deep")
                      and ref.executed_bodies + ref.iterations >= 1)
    ctx.count("top_level_operations", nops)
    # keep the evidence file small: the sample shows the shape, the digest the identity
    small = {"kind": case["kind"], "nops": nops, "k": case.get("k"), "depth": case.get("depth"), "digest": hash_prog(prog),
             "first_operations": prog[:6]}
    ctx.case(small, nontrivial)


def hash_prog(prog):
    from vf.common import h64
    return f"{h64(prog):016x}"
