"""Shared machinery: tier/seed handling, case accounting, violation + replay writer,
known-findings classifier, sharded subprocess runner, evidence writer.

Verdicts are three-valued:
  exit 0  held on everything observed (KNOWN-FINDING lines allowed)
  exit 1  VIOLATION property=<id> replay=<path>
  exit 2  INCONCLUSIVE property=<id> reason=...
"""
from __future__ import annotations

import hashlib
import importlib
import json
import os
import random
import subprocess
import sys
import time
import traceback
from typing import Any, Dict, List, Optional

ROOT = os.path.dirname(os.path.dirname(os.path.abspath(__file__)))
EVIDENCE_DIR = os.path.join(ROOT, "evidence")
REPLAY_DIR = os.path.join(ROOT, "replays")
WORK_DIR = os.path.join(ROOT, ".work")
KNOWN_FILE = os.path.join(ROOT, "known_findings.json")
NCORES = min(16, os.cpu_count() or 1)


def canon(obj: Any) -> str:
    return json.dumps(obj, sort_keys=True, default=repr, separators=(",", ":"))


def h64(obj: Any) -> int:
    return int.from_bytes(hashlib.blake2b(canon(obj).encode(), digest_size=8).digest(), "big")


def load_known() -> Dict[str, Dict[str, dict]]:
    """property -> key -> entry"""
    out: Dict[str, Dict[str, dict]] = {}
    if os.path.exists(KNOWN_FILE):
        data = json.load(open(KNOWN_FILE))
        for f in data.get("findings", []):
            out.setdefault(f["property"], {})[f["key"]] = f
    return out


class Ctx:
    """Per-run accounting. One instance per process (a shard or the single quick process)."""

    def __init__(self, pid: str, tier: str, seed: int, shard: int = 0, nshards: int = 1):
        self.pid = pid
        self.tier = tier
        self.seed = seed
        self.shard = shard
        self.nshards = nshards
        self.rng = random.Random((seed * 1000003 + shard * 7919 + 12345) & 0xFFFFFFFF)
        # the same stream in every shard: for random decisions that SHAPE an enumeration which is then split with mine(k)
        # (a skip or a sample decided with the shard's own stream would give every shard another enumeration, and the split
        # would no longer cover it)
        self.erng = random.Random((seed * 1000003 + 424243) & 0xFFFFFFFF)
        self.t0 = time.time()
        self.evaluations = 0
        self.nontrivial_hashes: set = set()
        self.all_hashes: set = set()
        self.samples: List[Any] = []
        self.sample_kinds: set = set()
        self.violations: List[dict] = []
        self.known_hits: Dict[str, int] = {}
        self.known_examples: Dict[str, Any] = {}
        self.counters: Dict[str, int] = {}
        self.inconclusive: List[str] = []
        self.known = load_known().get(pid, {})
        self.max_violations = 10
        self.exhaustive: Optional[bool] = None
        self.notes: Dict[str, Any] = {}
        self._failed_cases: set = set()

    # ---- tiers -------------------------------------------------------------------------
    @property
    def quick(self) -> bool:
        return self.tier == "quick"

    def n(self, quick: int, thorough: int) -> int:
        """Total budget for the tier divided over shards (ceil)."""
        tot = quick if self.quick else thorough
        return -(-tot // self.nshards)

    def mine(self, k: int) -> bool:
        """Deterministic partition of an enumerated space over shards."""
        return k % self.nshards == self.shard

    def elapsed(self) -> float:
        return time.time() - self.t0

    # ---- accounting --------------------------------------------------------------------
    def count(self, name: str, k: int = 1) -> None:
        self.counters[name] = self.counters.get(name, 0) + k

    def case(self, case: Any, nontrivial: bool = True, kind: Optional[str] = None) -> None:
        """Register one explored case (after it ran)."""
        self.evaluations += 1
        hv = h64(case)
        self.all_hashes.add(hv)
        if nontrivial:
            self.nontrivial_hashes.add(hv)
        k = kind if kind is not None else (case.get("kind") if isinstance(case, dict) else None)
        if (k not in self.sample_kinds and len(self.samples) < 12) or len(self.samples) < 2:
            self.sample_kinds.add(k)
            self.samples.append(case)

    def fail(self, case: Any, what: str, key: Optional[str] = None, detail: Any = None) -> None:
        """Report a violation witnessed on `case`. `key` names the mechanism; when it is listed in
        known_findings.json for this property the violation is a KNOWN-FINDING, otherwise fresh."""
        if key is not None and key in self.known:
            self.known_hits[key] = self.known_hits.get(key, 0) + 1
            self.known_examples.setdefault(key, {"case": case, "what": what})
            return
        hv = h64(case)
        if hv in self._failed_cases:
            return  # one witness per case
        self._failed_cases.add(hv)
        self.count("violations_total")
        if len(self.violations) >= self.max_violations:
            return
        self.violations.append({"case": case, "what": what, "key": key, "detail": detail})

    def too_many(self) -> bool:
        return len(self.violations) >= self.max_violations

    # ---- (de)serialisation for shards --------------------------------------------------
    def dump(self) -> dict:
        return {
            "evaluations": self.evaluations,
            "nontrivial": sorted(self.nontrivial_hashes),
            "all": len(self.all_hashes),
            "samples": self.samples,
            "violations": self.violations,
            "known_hits": self.known_hits,
            "known_examples": self.known_examples,
            "counters": self.counters,
            "inconclusive": self.inconclusive,
            "exhaustive": self.exhaustive,
            "notes": self.notes,
        }

    def merge(self, d: dict) -> None:
        self.evaluations += d["evaluations"]
        self.nontrivial_hashes.update(d["nontrivial"])
        for s in d["samples"]:
            if len(self.samples) < 12:
                self.samples.append(s)
        self.violations.extend(d["violations"])
        for k, v in d["known_hits"].items():
            self.known_hits[k] = self.known_hits.get(k, 0) + v
        for k, v in d["known_examples"].items():
            self.known_examples.setdefault(k, v)
        for k, v in d["counters"].items():
            self.counters[k] = self.counters.get(k, 0) + v
        self.inconclusive.extend(d["inconclusive"])
        if d.get("exhaustive") is False:
            self.exhaustive = False
        elif d.get("exhaustive") and self.exhaustive is None:
            self.exhaustive = True
        for k, v in d.get("notes", {}).items():
            self.notes.setdefault(k, v)


def load_module(pid: str):
    return importlib.import_module(f"vf.checks.{pid.lower()}")


def drive(ctx: Ctx, mod) -> None:
    """Run the module's cases in this process."""
    budget = getattr(mod, "WALL_BUDGET", {"quick": 100, "thorough": 900})[ctx.tier]
    if hasattr(mod, "setup"):
        mod.setup(ctx)
    for case in mod.cases(ctx):
        try:
            mod.run_case(ctx, case)
        except (KeyboardInterrupt, SystemExit):
            raise
        except BaseException as exc:  # noqa: an unexpected exception on a case is an alarm
            tb = traceback.format_exc(limit=12)
            ctx.fail(case, f"unexpected {type(exc).__name__}: {exc}", key="unexpected-exception", detail=tb)
        if ctx.too_many():
            break
        if ctx.elapsed() > budget:
            ctx.count("budget_stops")
            ctx.notes["budget_stop"] = f"wall budget {budget}s reached; remaining cases of this shard skipped"
            if getattr(mod, "BUDGET_IS_INCONCLUSIVE", False):
                ctx.inconclusive.append("wall budget reached before the enumeration finished")
            ctx.exhaustive = False
            break
    if hasattr(mod, "finish"):
        mod.finish(ctx)


def write_replay(pid: str, v: dict) -> str:
    os.makedirs(REPLAY_DIR, exist_ok=True)
    name = f"{pid}-{h64(v['case']):016x}.json"
    path = os.path.join(REPLAY_DIR, name)
    with open(path, "w") as f:
        json.dump({"property": pid, "case": v["case"], "what": v["what"], "key": v["key"],
                   "detail": v["detail"]}, f, indent=1, default=repr)
    return path


def conclude(ctx: Ctx, mod, wall: float) -> int:
    """Write evidence, print verdict lines, return the exit code."""
    pid = ctx.pid
    os.makedirs(EVIDENCE_DIR, exist_ok=True)
    min_nt = getattr(mod, "MIN_NONTRIVIAL", {"quick": 2, "thorough": 2})[ctx.tier]
    distinct_nt = len(ctx.nontrivial_hashes)
    reasons = list(ctx.inconclusive)
    if ctx.evaluations == 0:
        reasons.append("no case was evaluated")
    if distinct_nt < min_nt:
        reasons.append(f"only {distinct_nt} distinct non-trivial cases (< {min_nt})")
    for cname, minimum in getattr(mod, "MIN_COUNTERS", {}).items():
        if ctx.counters.get(cname, 0) < minimum:
            reasons.append(f"monitor counter {cname}={ctx.counters.get(cname, 0)} < {minimum}: deciding monitor not reached")
    coverage = {
        "evaluations": ctx.evaluations,
        "distinct_nontrivial": distinct_nt,
        "rule": mod.RULE,
        "samples": ctx.samples[:12],
        "exhaustive": bool(ctx.exhaustive) if ctx.exhaustive is not None else False,
        "monitor_counters": dict(sorted(ctx.counters.items())),
        "known_findings_hit": ctx.known_hits,
        "shards": ctx.nshards,
    }
    coverage.update(ctx.notes)
    ev = {
        "property_id": pid,
        "tier": ctx.tier,
        "seed": ctx.seed,
        "level": mod.LEVEL,
        "coverage": coverage,
        "assumptions": list(mod.ASSUMPTIONS),
        "wall_s": round(wall, 2),
        "violations": ctx.counters.get("violations_total", 0),
        "verdict": "violated" if ctx.violations else ("inconclusive" if reasons else "held"),
    }
    with open(os.path.join(EVIDENCE_DIR, f"{pid}.json"), "w") as f:
        json.dump(ev, f, indent=1, default=repr)
    print(f"[{pid}] tier={ctx.tier} seed={ctx.seed} evaluations={ctx.evaluations} "
          f"distinct_nontrivial={distinct_nt} wall={wall:.1f}s counters={dict(sorted(ctx.counters.items()))}")
    for key, n in sorted(ctx.known_hits.items()):
        what = ctx.known[key]["what"]
        print(f"KNOWN-FINDING: property={pid} {key}: {what} (observed on {n} cases this run)")
    if ctx.violations:
        for v in ctx.violations[:5]:
            path = write_replay(pid, v)
            print(f"  witness: {v['what']}" + (f" [mechanism {v['key']}]" if v["key"] else ""))
            print(f"VIOLATION property={pid} replay={path}")
        return 1
    if reasons:
        print(f"INCONCLUSIVE property={pid} reason={'; '.join(reasons)}")
        return 2
    print(f"HELD property={pid} on everything observed")
    return 0


def run_sharded(pid: str, tier: str, seed: int, nshards: int, timeout: float) -> Ctx:
    """Run shards as independent subprocesses (never multiprocessing.Pool) and merge."""
    os.makedirs(WORK_DIR, exist_ok=True)
    procs = []
    outs = []
    for i in range(nshards):
        out = os.path.join(WORK_DIR, f"{pid}-{os.getpid()}-{i}.json")
        outs.append(out)
        env = dict(os.environ)
        env["PYTHONHASHSEED"] = "0"
        cmd = [sys.executable, os.path.join(ROOT, "vf", "main.py"), pid, "--tier", tier, "--seed", str(seed),
               "--shard", f"{i}/{nshards}", "--out", out]
        procs.append(subprocess.Popen(cmd, env=env, cwd=ROOT, stdout=subprocess.PIPE, stderr=subprocess.STDOUT))
    ctx = Ctx(pid, tier, seed, 0, 1)
    ctx.nshards = nshards
    deadline = time.time() + timeout
    for i, (p, out) in enumerate(zip(procs, outs)):
        try:
            stdout, _ = p.communicate(timeout=max(1.0, deadline - time.time()))
        except subprocess.TimeoutExpired:
            p.kill()
            stdout, _ = p.communicate()
            ctx.inconclusive.append(f"shard {i} hit the wall-clock watchdog ({timeout:.0f}s)")
            continue
        if p.returncode != 0 or not os.path.exists(out):
            tail = stdout.decode(errors="replace")[-1500:]
            ctx.inconclusive.append(f"shard {i} crashed (rc={p.returncode}): {tail}")
            continue
        ctx.merge(json.load(open(out)))
        os.remove(out)
    return ctx
