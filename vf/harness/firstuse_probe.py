"""Run in a FRESH interpreter: the first use of every instruction shape carries its integer operands as bool / numpy
scalars (valid values), afterwards out-of-range plain integers must still be rejected or round-trip exactly.
Prints a JSON list of violations.  usage: firstuse_probe.py <first-use type: bool|numpy|float>"""
import json
import os
import sys

sys.path.insert(0, os.path.dirname(os.path.dirname(os.path.dirname(os.path.abspath(__file__)))))


def main():
    import numpy as np
    from netqasm.lang.parsing import deserialize
    from vf.harness import codec
    from vf.ref import isa
    mode = sys.argv[1]
    conv = {"bool": lambda v: bool(v), "numpy": lambda v: np.int64(v), "float": lambda v: float(v)}[mode]
    bad, n_checked, n_first = [], 0, 0
    OUT = {isa.I8: [256, 300, -1, 2**32 + 7], isa.I32: [2**31, -(2**31) - 1, 2**32 + 5], isa.AD: [2**31, 2**32 + 5]}
    for flav in ("vanilla", "nv"):
        fobj = codec.flavour_obj(flav)
        for m, (op, kinds) in sorted(isa.TABLE[flav].items()):
            leaves = [p for p in codec.leaf_positions(kinds) if p[2] != isa.R]
            if not leaves:
                continue
            base = [[["R", 1], ["R", 2], ["R", 3]][i % 3] if k == isa.R else 1 for i, k in enumerate(kinds)]
            base = [([1, ["R", 1]] if k == isa.EN else ([1, ["R", 1], ["R", 2]] if k == isa.SL else b)) for b, k in zip(base, kinds)]
            first = base
            for p in leaves:
                first = codec.set_leaf(first, p, conv(1))
            try:
                bytes(codec.mk_subroutine(flav, [1, 0], 0, [[m, first]]))   # first use of this shape in the process
                n_first += 1
            except Exception:
                pass                                                         # refused loudly: fine
            for p in leaves:
                for v in OUT[p[2]]:
                    vals = codec.set_leaf(base, p, v)
                    n_checked += 1
                    try:
                        raw = bytes(codec.mk_subroutine(flav, [1, 0], 0, [[m, vals]]))
                    except Exception:
                        continue
                    got = [codec.describe_instr(i) for i in deserialize(raw, flavour=fobj).instructions]
                    if got != [[m, vals]]:
                        bad.append({"flavour": flav, "mnemonic": m, "values": vals, "decoded": got})
    print(json.dumps({"violations": bad[:5], "checked": n_checked, "first_uses": n_first}))


main()
