"""Scripted link layer with modelled remote partners (C09-C12).

The check supplies a *plan*: the EPR requests the program will issue, in program order per role, with the
per-pair content of the link-layer responses.  The model activates a planned request when it observes the
corresponding `create_epr` / `recv_epr` instruction complete (step event) and then owns a FIFO of pending pairs.
When pairs are delivered is the policy's choice: "late" (only when the executor waits) for C09-C11.

Delivering a K pair: pick a physical id the way simulators do (`executor._get_unused_physical_qubit()`), append a
two-qubit Bell state |b> (b numbered 0 Phi+, 1 Psi+, 2 Psi-, 3 Phi- : the wire contract, literal) between that
physical qubit and a partner qubit that lives in the same state vector but in no unit module, then hand the
response to the real `executor._handle_epr_response`.
"""
from __future__ import annotations

from typing import Callable, List, Optional

from vf.harness import controller as hc
from vf.ref import quantum as rq


class PlannedRequest:
    def __init__(self, role: str, tp: str, number: int, remote: int = 1, socket: int = 0, bells=None, fields=None,
                 outcomes=None, bases=None, tag=None):
        assert role in ("create", "recv") and tp in ("K", "M", "R")
        self.role, self.tp, self.number, self.remote, self.socket = role, tp, number, remote, socket
        self.bells = list(bells) if bells is not None else [0] * number
        self.outcomes = list(outcomes) if outcomes is not None else [0] * number
        self.bases = list(bases) if bases is not None else [0] * number
        self.fields: Optional[Callable[[int, str], int]] = fields   # (pair, field name) -> value override
        self.tag = tag
        self.delivered = 0
        self.partners: List[tuple] = []     # partner labels per delivered K pair
        self.phys: List[int] = []
        self.create_request = None          # LinkLayerCreate seen by the stack (create role)


class LinkModel:
    def __init__(self, plan: List[PlannedRequest], policy: str = "late", partners: bool = True, qlink10: bool = False):
        self.qlink10 = qlink10
        self.plan = list(plan)
        self.partners = partners     # model the remote half of every kept pair (needed by C10 only; it grows the state vector)
        self.policy = policy
        self.pipe = None
        self.ex: Optional[hc.MonitoredExecutor] = None
        self.next_plan = {"create": 0, "recv": 0}
        self.active: List[PlannedRequest] = []
        self.n_partner = 0
        self.seq = 0
        self.deliveries: List[tuple] = []
        self.deferred_seen = 0

    # ---- wiring -----------------------------------------------------------------------------------
    def attach(self, pipe) -> None:
        self.pipe = pipe
        self.ex = pipe.ctrl.executor
        pipe.stack.on_put = self._on_put
        self._puts: List = []

    def attach_executor(self, ex, stack) -> None:
        self.ex = ex
        stack.on_put = self._on_put
        self._puts = []

    def _on_put(self, request) -> None:
        self._puts.append(request)

    def _activate(self, role: str) -> None:
        reqs = [p for p in self.plan if p.role == role]
        i = self.next_plan[role]
        if i >= len(reqs):
            raise hc.Deadlock(f"program issued an unplanned {role} request")
        self.next_plan[role] += 1
        p = reqs[i]
        if role == "create":
            p.create_request = self._puts[-1] if self._puts else None
        self.active.append(p)

    # ---- events -------------------------------------------------------------------------------------
    def on_event(self, ev) -> None:
        if ev[0] == "step":
            if ev[3] == "create_epr":
                self._activate("create")
            elif ev[3] == "recv_epr":
                self._activate("recv")
            self._poll()
            return
        if ev[0] == "wait":
            before = len(self.ex._pending_epr_responses)
            self._poll()
            if len(self.ex._pending_epr_responses) < before:
                return
            if not self.deliver_next():
                raise hc.Deadlock("wait: no deliverable response (all planned pairs delivered or none requested)")

    def _poll(self) -> None:
        if self.ex._pending_epr_responses:
            self.deferred_seen += 1
            self.ex._handle_pending_epr_responses()

    # ---- delivery -------------------------------------------------------------------------------------
    def pending_requests(self) -> List[PlannedRequest]:
        return [p for p in self.active if p.delivered < p.number]

    def deliver_next(self) -> bool:
        # receive-role requests flagged `early`: the remote node generated before the local recv_epr was executed
        for p in self.plan:
            if getattr(p, "early", False) and p.role == "recv" and p.delivered < p.number:
                self.deliver(p)
                return True
        pend = self.pending_requests()
        if not pend:
            return False
        self.deliver(pend[0])
        return True

    def deliver(self, p: PlannedRequest) -> None:
        from netqasm import qlink_compat as ql
        ex = self.ex
        k = p.delivered
        p.delivered += 1
        self.seq += 1
        purpose = p.socket
        direction = 0 if p.role == "create" else 1

        def f(name, default):
            if p.fields is not None:
                v = p.fields(k, name)
                if v is not None:
                    return v
            return default

        gives_qubit = (p.tp == "K") or (p.tp == "R" and p.role == "recv")
        if gives_qubit:
            phys = ex._get_unused_physical_qubit()
            partner = ("partner", self.n_partner)
            self.n_partner += 1
            if self.partners:
                ex.sv.add_pair(("p", phys), partner, rq.BELL[p.bells[k]])
            else:
                ex.sv.add(("p", phys))
            ex.inflight_phys.add(phys)
            p.partners.append(partner)
            p.phys.append(phys)
            resp = ql.LinkLayerOKTypeK(
                type=ql.ReturnType.OK_K, create_id=f("create_id", 0), logical_qubit_id=phys,
                directionality_flag=direction, sequence_number=f("sequence_number", self.seq), purpose_id=purpose,
                remote_node_id=p.remote, goodness=f("goodness", 0), goodness_time=f("goodness_time", 0),
                bell_state=ql.BellState(p.bells[k]))
        else:
            resp = ql.LinkLayerOKTypeM(
                type=ql.ReturnType.OK_M, create_id=f("create_id", 0), measurement_outcome=f("measurement_outcome", p.outcomes[k]),
                measurement_basis=ql.Basis(f("measurement_basis", p.bases[k])), directionality_flag=direction,
                sequence_number=f("sequence_number", self.seq), purpose_id=purpose, remote_node_id=p.remote,
                goodness=f("goodness", 0), bell_state=ql.BellState(p.bells[k]))
        if self.qlink10:
            # the same response as a qlink-interface 1.0 object (what an external link layer hands over); the Bell state is the
            # same *named* state, in that interface's own enum
            import qlink_interface as q1
            bell = q1.BellState[ql.BellState(p.bells[k]).name]
            if gives_qubit:
                resp = q1.ResCreateAndKeep(create_id=resp.create_id, directionality_flag=resp.directionality_flag,
                                           sequence_number=resp.sequence_number, purpose_id=resp.purpose_id,
                                           remote_node_id=resp.remote_node_id, goodness=resp.goodness, bell_state=bell,
                                           logical_qubit_id=resp.logical_qubit_id, time_of_goodness=resp.goodness_time)
            else:
                resp = q1.ResMeasureDirectly(create_id=resp.create_id, directionality_flag=resp.directionality_flag,
                                             sequence_number=resp.sequence_number, purpose_id=resp.purpose_id,
                                             remote_node_id=resp.remote_node_id, goodness=resp.goodness, bell_state=bell,
                                             measurement_outcome=resp.measurement_outcome,
                                             measurement_basis=q1.MeasurementBasis(resp.measurement_basis.value))
        self.deliveries.append((p.tag, k, resp))
        ex._handle_epr_response(resp)
