"""L3 pipeline: SDK -> assemble -> (NV transpile) -> bytes -> deserialize_host_msg -> QNodeController -> Executor
over the R-QUANTUM backend, with a scripted measurement oracle and (optionally) the scripted link layer."""
from __future__ import annotations

from typing import List, Optional, Sequence

from vf.harness import controller as hc
from vf.ref import quantum as rq


class Pipe:
    def __init__(self, script: Sequence[int] = (), max_qubits: int = 5, hardware: str = "generic", transpile=None,
                 node_ids=None, node_name: str = "alice", epr_sockets=None, link=None, step_limit: int = 50000,
                 default_outcome: int = 0, return_arrays: bool = True):
        from netqasm.lang.instr.flavour import NVFlavour
        from netqasm.sdk.build_types import GenericHardwareConfig, NVHardwareConfig
        from netqasm.sdk.transpile import NVSubroutineTranspiler
        hc.reset_globals()
        self.node_ids = node_ids or {"alice": 0, "bob": 1, "charlie": 2}
        hc.set_node_ids(self.node_ids)
        if transpile is None:
            transpile = hardware == "nv"
        self.script = rq.MeasScript(script, default=default_outcome)
        self.stack = hc.RecordingStack()
        self.ctrl = hc.make_node(node_name, node_id=self.node_ids[node_name], flavour=NVFlavour() if transpile else None,
                                 script=self.script, step_limit=step_limit, stack=self.stack)
        self.link = link
        if link is not None:
            link.attach(self)
        hw = NVHardwareConfig(max_qubits) if hardware == "nv" else GenericHardwareConfig(max_qubits)
        self.conn = hc.PipelineConnection(node_name, self.ctrl, on_event=self._on_event, max_qubits=max_qubits,
                                          hardware_config=hw, compiler=NVSubroutineTranspiler if transpile else None,
                                          epr_sockets=epr_sockets, return_arrays=return_arrays)
        self.app_id = self.conn.app_id

        self._open_kw = dict(max_qubits=max_qubits, hardware=hardware, transpile=transpile, return_arrays=return_arrays)
        self.node_name = node_name

    def open(self, app_id=None, max_qubits=None, epr_sockets=None):
        """Another host application on the SAME long-lived controller (same node, next free or given app id)."""
        from netqasm.sdk.build_types import GenericHardwareConfig, NVHardwareConfig
        from netqasm.sdk.transpile import NVSubroutineTranspiler
        kw = self._open_kw
        mq = max_qubits or kw["max_qubits"]
        hw = NVHardwareConfig(mq) if kw["hardware"] == "nv" else GenericHardwareConfig(mq)
        return hc.PipelineConnection(self.node_name, self.ctrl, on_event=self._on_event, max_qubits=mq, hardware_config=hw,
                                     compiler=NVSubroutineTranspiler if kw["transpile"] else None, epr_sockets=epr_sockets,
                                     return_arrays=kw["return_arrays"], app_id=app_id)

    def label_in(self, conn, qubit) -> tuple:
        return ("p", self.ex._qubit_unit_modules[conn.app_id][qubit.qubit_id])

    def state_in(self, conn, qubits: List):
        """State of the given qubits of one application; None if they are entangled with anything else on the node."""
        import numpy as np
        sv = self.ex.sv
        labs = [self.label_in(conn, q) for q in qubits]
        others = [l for l in sv.labels if l not in labs]
        m = sv.vector(labs + others).reshape(2 ** len(labs), -1)
        u, sing, _ = np.linalg.svd(m, full_matrices=False)
        if len(sing) > 1 and sing[1] > 1e-7:
            return None
        return u[:, 0]

    @property
    def ex(self) -> hc.MonitoredExecutor:
        return self.ctrl.executor

    def _on_event(self, ev):
        if self.link is not None:
            self.link.on_event(ev)
        elif ev[0] == "wait":
            raise hc.Deadlock("wait with no link layer attached")

    # ---- state helpers -------------------------------------------------------------------------
    def phys_of(self, virt: int) -> int:
        return self.ex._qubit_unit_modules[self.app_id][virt]

    def label_of(self, qubit) -> tuple:
        return ("p", self.phys_of(qubit.qubit_id))

    def set_state(self, qubits: List, vec, refs: int = 0):
        """Overwrite the joint state of the given (allocated, flushed) qubits [+ `refs` reference qubits]."""
        import numpy as np
        labs = [self.label_of(q) for q in qubits]
        sv = self.ex.sv
        for l in labs:
            if sv.has(l):
                o = 0 if sv.prob1(l) < 0.5 else 1
                sv.remove(l, o)
        n = len(labs) + refs
        t = np.asarray(vec, dtype=complex).reshape((2,) * n)
        sv.t = np.tensordot(sv.t, t, axes=0)
        sv.labels += labs + [("ref", i) for i in range(refs)]

    def state_of(self, qubits: List, refs: int = 0):
        labs = [self.label_of(q) for q in qubits] + [("ref", i) for i in range(refs)]
        return self.ex.sv.vector(labs)
