"""Probe (own process): a ThreadSocket that is cyclic garbage is finalized by the garbage collector at a statement INSIDE one of
the hub's critical sections - the collector runs finalizers in whichever thread allocates next. The schedule is chosen, not hoped
for: the collection threshold is set so that the collection falls k allocations after the socket became garbage, for k = 0..K-1,
and then an unrelated connected socket does one hub operation (non-blocking receive on its empty channel / send / close).

Prints one JSON line: {"runs": n, "completed": m, "op": .., "hung_at": k or null, "stack": [...]}.
A run that does not come back is a deadlock of the hub lock (the operation hangs, and every later hub operation with it)."""
import faulthandler
import gc
import io
import json
import os
import sys
import threading
import time

from netqasm.sdk.classical_communication import ThreadSocket

K = int(sys.argv[2]) if len(sys.argv) > 2 else 40
OP = sys.argv[1] if len(sys.argv) > 1 else "recv"


def pair(sid):
    out = {}

    def mk(name, remote):
        out[name] = ThreadSocket(name, remote, socket_id=sid)

    ts = [threading.Thread(target=mk, args=p) for p in (("A", "B"), ("B", "A"))]
    [t.start() for t in ts]
    [t.join() for t in ts]
    return out["A"], out["B"]


class Protocol:
    """An application object that references itself and owns a socket."""


a0, b0 = pair(0)
spare = [pair(1000 + i) for i in range(K)] if OP == "close" else []
old = [pair(i) for i in range(1, K + 1)]
progress = []
received = []


def worker():
    for k in range(K):
        gc.collect()
        gc.disable()
        p = Protocol()
        p.me = p
        p.sock, _keep_remote_side = old[k]
        old[k] = None
        del p  # the old socket is now cyclic garbage, finalized by the next collection
        gc.set_threshold(gc.get_count()[0] + k)
        gc.enable()
        if OP == "recv":
            try:
                a0.recv(block=False)
                received.append(("unexpected message", k))
            except RuntimeError:
                pass  # "No message to receive": the answer a non-blocking receive owes on an empty channel
        elif OP == "send":
            a0.send(f"m{k}")
        else:
            spare[k] = (None, spare[k][1])      # last reference to the A side dropped: its finalizer disconnects it
        gc.set_threshold(700)
        progress.append(k)


t = threading.Thread(target=worker, daemon=True)
t.start()
deadline = time.monotonic() + 30
while t.is_alive() and time.monotonic() < deadline:
    t.join(0.05)
rep = {"runs": K, "completed": len(progress), "op": OP, "hung_at": None, "stack": [], "unexpected": received}
if t.is_alive():
    rep["hung_at"] = len(progress)
    frames = sys._current_frames().get(t.ident)
    while frames is not None:
        rep["stack"].append(f"{os.path.basename(frames.f_code.co_filename)}:{frames.f_code.co_name}:{frames.f_lineno}")
        frames = frames.f_back
elif OP == "send":
    got = []
    try:
        while True:
            got.append(b0.recv(block=False))
    except RuntimeError:
        pass
    rep["delivered"] = got == [f"m{k}" for k in range(K)]
print(json.dumps(rep))
sys.stdout.flush()
os._exit(0)
