"""Differential runner: an R-HOST program through the real SDK -> bytes -> controller pipeline vs direct evaluation."""
from __future__ import annotations

import copy
import re
from typing import Callable, List, Optional

from vf.harness import controller as hc
from vf.harness.hostsdk import SdkDriver
from vf.harness.pipeline import Pipe
from vf.ref import hostlang as hl

KF_CACHE = "future-cache-after-mutation"
KF_RETREG = "regfuture-measure-in-control-flow:undefined-or-foreign-register-value"


class Discard(Exception):
    """The reference evaluation itself fails / exceeds its bound: the case is not judged."""


def nested_reg_measurements(stmts, inside=False, out=None):
    """Names of register measurements (measure(store_array=False)) that sit inside a control-flow construct."""
    out = set() if out is None else out
    for st in stmts:
        if st["op"] == "meas" and st["to"]["kind"] == "reg" and inside:
            out.add(st["to"]["name"])
        if "body" in st:
            nested_reg_measurements(st["body"], True, out)
    return out


def reference_run(prog, script, step_bound=4000, templates=None):
    ref = hl.DirectEval(script, step_bound=step_bound)
    ref.templates = dict(templates or {}) if not isinstance(templates, list) else {}
    snaps = []
    try:
        for si, seg in enumerate(hl.segments(prog)):
            if isinstance(templates, list):
                ref.templates = dict(templates[si])      # template values may differ from one flush segment to the next
            ref.run_segment(seg)
            live = [q for q, alive in ref.qubits.items() if alive]
            snaps.append({"arrays": copy.deepcopy(ref.arrays), "regs": dict(ref.regs), "trace_len": len(ref.trace),
                          "live": live, "state": ref.sv.vector(live).copy()})
    except hl.HostFault as e:
        raise Discard(f"host fault: {e}")
    except hl.StepBound:
        raise Discard("step bound")
    return ref, snaps


def _filter_trace(tr):
    return [t for t in tr if t[0] != "clear"]


def map_trace(ref_trace, qid):
    out = []
    for t in ref_trace:
        if t[0] == "cnot":
            out.append(("cnot", qid[t[1]], qid[t[2]]))
        elif t[0].startswith("rot_"):
            out.append((t[0], qid[t[1]], t[2], t[3]))
        elif t[0] == "meas":
            out.append(("meas", qid[t[1]], t[2]))
        else:
            out.append((t[0], qid[t[1]]))
    return out


class _HostValue(int):
    """An int subclass in the way of the SDK's BaseFuture: raw value 0, the value it stands for in __int__ and the comparisons."""
    def __new__(cls, v):
        o = int.__new__(cls, 0)
        o.v = int(v)
        return o
    __int__ = lambda self: self.v
    __lt__ = lambda self, o: self.v < int(o)
    __le__ = lambda self, o: self.v <= int(o)
    __gt__ = lambda self, o: self.v > int(o)
    __ge__ = lambda self, o: self.v >= int(o)
    __eq__ = lambda self, o: self.v == o
    __hash__ = lambda self: hash(self.v)
    __str__ = __repr__ = lambda self: str(self.v)


def run_differential(prog, script, fail: Callable[[str, Optional[str]], None], count: Callable[[str, int], None],
                     pipe_kw=None, compare_trace=True, on_segment=None, on_top=None, step_bound=4000,
                     check_host_handles=True, templates=None, segment_modes=None, after_close=None, on_nested=None, neighbours=False):
    """Returns dict with 'nontrivial' info. `fail(what, key)` reports a violation."""
    ref, snaps = reference_run(prog, script, step_bound, templates)
    pipe = Pipe(script=script, max_qubits=5, **(pipe_kw or {}))
    drv = SdkDriver(pipe.conn)
    drv.on_top = on_top
    drv.on_nested = on_nested
    nbs = []
    if neighbours:
        # other applications of the same host process come and go on the controller while this one builds its subroutines
        # (they queue nothing: opening / closing a connection is all they do)
        n_top = [0]

        def neighbour(_st):
            n_top[0] += 1
            if n_top[0] % 3 == 2:
                nbs.append(pipe.open(max_qubits=1))
                count("neighbour_applications_opened", 1)
                if len(nbs) > 2 and neighbours != "loops":
                    nbs.pop(0).close()
        drv.before_top = neighbour
        if neighbours == "loops":
            # ... and, while this application is inside the body of one of its own constructs, a neighbour builds and sends a few
            # complete retry loops (loop_until) of its own
            state = {}

            def neighbour_loops(_st):
                n_top[0] += 1
                if n_top[0] % 4 != 1:
                    return
                from netqasm.sdk.constraint import ValueAtMostConstraint
                if "conn" not in state:
                    state["conn"] = pipe.open(max_qubits=1)
                    state["arr"] = state["conn"].new_array(1, init_values=[3])
                    nbs.append(state["conn"])
                nbc = state["conn"]
                for _ in range(2):
                    with nbc.loop_until(2) as lp:
                        f = state["arr"].get_future_index(0)
                        f.add(-1)
                        lp.set_exit_condition(ValueAtMostConstraint(f, 0))
                nbc.flush()
                count("neighbour_retry_loops_built_inside_a_body", 2)
            drv.before_nested = neighbour_loops
    per_segment = isinstance(templates, list)
    drv.tmpl_values = dict(templates or {}) if not per_segment else {}
    ex = pipe.ex
    app = pipe.app_id
    first_read = {}
    frozen_regs = {}
    nested_regs = nested_reg_measurements(prog)
    t0 = 0
    r0 = 0
    p0 = 0
    last_compared = -1
    segs = hl.segments(prog)
    ok = True
    pending_sub = None

    def host_check(label, handle_key, host, expected, obj=None):
        nonlocal ok
        # the cache lives in the handle *object* (two Future objects for the same entry cache independently)
        ck = (handle_key, id(obj))
        if host is not None and ck not in first_read:
            first_read[ck] = host
        if host != expected:
            ok = False
            key = KF_CACHE if (ck in first_read and host == first_read[ck] and host is not None
                               and handle_key[0] != "array") else None
            if handle_key[0] == "regfuture" and handle_key[1] in nested_regs:
                key = KF_RETREG
            fail(f"after flush {label}: host reads {handle_key[0]} {handle_key[1:]} = {host} but the controller holds {expected}", key)

    try:
        conn = pipe.conn
        if True:
            ahead = {"built": False, "error": None}

            def setup(k):
                drv.segment = k
                m = (segment_modes[k] if segment_modes else "direct").replace("+cb", "")
                drv.tmpl_mode = "template" if m in ("pre", "pre-late") else "concrete"
                if per_segment:
                    drv.tmpl_values = dict(templates[k])

            for si, seg in enumerate(segs):
                mode = segment_modes[si] if segment_modes else "direct"
                # "+cb": the segment is sent with a completion callback in which the host program queues the operations of
                # the NEXT segment (they belong to the next subroutine, whichever route sends this one)
                with_cb = mode.endswith("+cb") and si < len(segs) - 1
                mode = mode.replace("+cb", "")
                tv = dict(templates[si]) if per_segment else dict(templates or {})
                if ahead["error"] is not None:
                    fail(f"segment {si}: the SDK could not compile a valid host program: {ahead['error']}", None)
                    return {"ok": False}
                if not ahead["built"]:
                    setup(si)
                    try:
                        if pending_sub is not None:
                            ahead["mid"] = ahead.get("mid", 0) + 1
                        if pending_sub is not None and len(seg) >= 2 and ahead["mid"] % 2 == 1:
                            # a subroutine compiled earlier is committed in the MIDDLE of queueing this segment's operations
                            half = len(seg) // 2
                            drv.top_block(seg[:half])
                            conn.commit_subroutine(pending_sub)
                            pending_sub = None
                            ahead["late"] = ahead.get("late", 0) + 1
                            count("late_commits_between_queued_operations", 1)
                            drv.top_block(seg[half:])
                        else:
                            drv.top_block(seg)
                    except hc.ControllerFault:
                        raise
                    except Exception as e:
                        fail(f"segment {si}: the SDK could not compile a valid host program: {type(e).__name__}: {str(e)[:160]}", None)
                        return {"ok": False}
                ahead["built"] = False
                callback = None
                if with_cb and mode != "pre-late":
                    def callback(k=si + 1):
                        setup(k)
                        try:
                            drv.top_block(segs[k])
                        except Exception as e:     # noqa
                            ahead["error"] = f"{type(e).__name__}: {str(e)[:160]}"
                        ahead["built"] = True
                        count("segments_queued_from_a_completion_callback", 1)
                try:
                    if pending_sub is not None:
                        # a subroutine compiled earlier is committed only now, after more operations were queued
                        # (every other time with a completion callback that does nothing: what is queued meanwhile stays queued)
                        ahead["late"] = ahead.get("late", 0) + 1
                        if ahead["late"] % 2:
                            conn.commit_subroutine(pending_sub, block=False, callback=lambda: count("late_commit_callbacks", 1))
                        else:
                            conn.commit_subroutine(pending_sub)
                        pending_sub = None
                    if mode == "pre-late" and si < len(segs) - 1:
                        sub = conn.compile()
                        if sub is not None:
                            sub.instantiate(conn.app_id, tv)
                            pending_sub = sub
                        count("precompiled_segments", 1)
                        count("late_commits", 1)
                        continue   # not executed yet: judged together with the next segment
                    if mode in ("pre", "pre-late"):
                        # compile without sending, fill in the template values, commit
                        sub = conn.compile()
                        if sub is not None:
                            ahead["pre"] = ahead.get("pre", 0) + 1
                            if sub.arguments or ahead["pre"] % 2:
                                # (every third time the values are handed over the way a host has them after reading a measurement
                                # outcome: an int subclass whose value lives in __int__, like the SDK's resolved Future)
                                vals = {k_: _HostValue(v_) for k_, v_ in tv.items()} if ahead["pre"] % 3 == 0 else tv
                                sub.instantiate(conn.app_id, vals)
                            else:
                                count("precompiled_committed_without_instantiate", 1)     # nothing to fill in: committed as compiled
                            conn.commit_subroutine(sub, block=callback is None, callback=callback)
                        elif callback is not None:
                            callback()
                        count("precompiled_segments", 1)
                    else:
                        conn.flush(block=callback is None, callback=callback)
                        if callback is not None and not ahead["built"]:
                            callback()      # nothing was pending, nothing was sent: the host queues its next round anyway
                except hc.ControllerFault as cf:
                    key = None
                    m = re.search(r"Trying to return register (M\d+) but it does not have value", str(cf.exc))
                    if m:
                        # known finding only if the reference says that very measurement was never executed
                        for name, h in drv.regs.items():
                            if (drv.created_in_segment.get(name) == si and str(h.reg) == m.group(1)
                                    and snaps[si]["regs"].get(name) is None):
                                key = KF_RETREG
                    fail(f"segment {si}: controller fault while executing the emitted subroutine: {cf}", key)
                    return {"ok": False, "ref": ref}
                except hc.StepLimit:
                    fail(f"segment {si}: the emitted subroutine did not terminate within the step bound "
                         f"(direct evaluation takes {ref.steps} steps in total)", None)
                    return {"ok": False}
                count("segments_compared", 1)
                snap = snaps[si]
                # (1) operations applied on the controller, in order
                if compare_trace:
                    got = _filter_trace(ex.trace)[t0:]
                    want = map_trace(ref.trace[r0:snap["trace_len"]], drv.qid)
                    t0 += len(got)
                    r0 = snap["trace_len"]
                    if got != want:
                        i = next((j for j, (a, b) in enumerate(zip(got, want)) if a != b), min(len(got), len(want)))
                        fail(f"segment {si}: controller applied {got[max(0, i - 2):i + 3]} where direct execution applies "
                             f"{want[max(0, i - 2):i + 3]} (operation {i} of the segment; {len(got)} vs {len(want)} operations)", None)
                        return {"ok": False}
                    count("operations_compared", len(want))
                # (2) controller arrays
                carr = ex.arrays_snapshot(app)
                for name, vals in snap["arrays"].items():
                    if name not in drv.arrays:
                        continue
                    addr = drv.arrays[name].address
                    if carr.get(addr) != vals:
                        fail(f"segment {si}: controller array {name} (@{addr}) = {carr.get(addr)} but direct execution gives {vals}", None)
                        return {"ok": False}
                # (3) registers created in this segment
                for name, h in drv.regs.items():
                    if drv.created_in_segment.get(name) == si or (str(h.reg) in drv.seg_regs.get(si, set()) and name not in nested_regs and str(h.reg).startswith("R")):
                        cval = ex._get_register(app, h.reg)
                        frozen_regs[name] = snap["regs"].get(name)
                        if cval != snap["regs"].get(name):
                            # a register measurement that was never executed leaves the (recycled) M register with a
                            # stale outcome of an earlier subroutine: same known mechanism as the ret_reg fault
                            key = KF_RETREG if (str(h.reg).startswith("M") and (snap["regs"].get(name) is None or name in nested_regs)) else None
                            fail(f"segment {si}: controller register {h.reg} (handle {name}) = {cval} but direct execution gives "
                                 f"{snap['regs'].get(name)}", key)
                            return {"ok": False, "ref": ref}
                # (6) what was returned to the host in this segment: registers and arrays created (or measured into) in this
                #     segment, each exactly once - nothing that belongs to an earlier segment is returned again
                pubs = ex.ret_log[p0:]
                p0 = len(ex.ret_log)
                segs_covered = range(last_compared + 1, si + 1)     # (a late commit is judged together with the next segment)
                last_compared = si
                pubs = [p_ for p_ in pubs if p_[0] == app]
                got_regs = sorted(r for (_a, kind, r, _v) in pubs if kind == "reg")
                want_regs = sorted(r for j in segs_covered for r in drv.seg_regs.get(j, set()))   # each segment returns its own
                if got_regs != want_regs and not (set(drv.regs) & nested_regs):
                    fail(f"segment {si}: registers returned to the host {got_regs}, but the registers handed to host handles in this "
                         f"segment are {want_regs}", None)
                    return {"ok": False, "ref": ref}
                got_arrs = sorted(a for (_a, kind, a, _v) in pubs if kind == "arr")
                want_arrs = sorted(drv.arrays[name].address for name in drv.arrays if drv.created_in_segment.get(name) in segs_covered)
                if got_arrs != want_arrs:
                    fail(f"segment {si}: arrays returned to the host @{got_arrs}, but the arrays created in this segment are @{want_arrs}", None)
                    return {"ok": False, "ref": ref}
                # (5) quantum state of the live qubits (up to global phase), ordered by host handle
                live = snap["live"]
                try:
                    labels = [("p", pipe.phys_of(drv.qubits[q].qubit_id)) for q in live]
                    got_state = ex.sv.vector(labels)
                except Exception as e:
                    fail(f"segment {si}: the controller's live qubits do not match the host's ({type(e).__name__}: {str(e)[:120]})", None)
                    return {"ok": False, "ref": ref}
                from vf.ref import quantum as rq
                if not rq.eq_up_to_phase(got_state, snap["state"], 1e-8):
                    fail(f"segment {si}: quantum state of the live qubits {live} differs from direct execution "
                         f"(fidelity {rq.fidelity(got_state, snap['state']):.6f})", None)
                    return {"ok": False, "ref": ref}
                count("quantum_states_compared", 1)
                # (4) every host handle created so far, read after every flush
                if not check_host_handles:
                    if on_segment is not None:
                        on_segment(si, pipe, drv)
                    continue
                for name, arr in drv.arrays.items():
                    if name in snap["arrays"]:
                        host = arr[0:len(arr)]
                        host_check(si, ("array", name), list(host) if host is not None else None, snap["arrays"][name])
                for (aname, i), fut in drv.entry_handles.items():
                    if aname in snap["arrays"]:
                        host_check(si, ("future", aname, i), fut.value, snap["arrays"][aname][i], fut)
                for name, fut in drv.futs.items():
                    if name in snap["arrays"] and getattr(fut, "_index", None) == 0 and isinstance(fut._index, int):
                        host_check(si, ("future", name, 0), fut.value, snap["arrays"][name][0], fut)
                for name, h in drv.regs.items():
                    if name in frozen_regs:
                        host_check(si, ("regfuture", name), h.value, frozen_regs[name], h)
                count("host_handles_read", len(drv.arrays) + len(drv.entry_handles) + len(drv.futs) + len(frozen_regs))
                if on_segment is not None:
                    on_segment(si, pipe, drv)
            while nbs:
                nbs.pop().close()
            conn.close()   # only on the success path: a failed flush leaves pending bookkeeping behind
            if after_close is not None:
                after_close(pipe, drv, ref, snaps[-1])
    except hc.ControllerFault as cf:
        fail(f"controller fault outside a flush (closing the connection): {cf}", None)
        return {"ok": False}
    return {"ok": ok, "ref": ref, "pipe": pipe, "drv": drv}
