"""Probe (own process): the sockets of one run are still held by the caller when the hub is reset (what a test suite or a simulator
does between runs) and the next run opens sockets under the same names. When the old objects are let go afterwards, the new
connection must stay as it is. Prints one JSON line."""
import gc
import json
import sys
import threading

from netqasm.sdk.classical_communication.thread_socket.socket import ThreadSocket
from netqasm.sdk.classical_communication.thread_socket.socket_hub import reset_socket_hub


def pair():
    out = {}

    def mk(name, remote):
        out[name] = ThreadSocket(name, remote, socket_id=0, timeout=20)
    ts = [threading.Thread(target=mk, args=p) for p in (("A", "B"), ("B", "A"))]
    [t.start() for t in ts]
    [t.join(30) for t in ts]
    return out.get("A"), out.get("B")


rep = {"rounds": 0, "problems": []}
for rnd in range(int(sys.argv[1]) if len(sys.argv) > 1 else 3):
    old = pair()
    old[0].send("x")
    assert old[1].recv(block=True, timeout=5) == "x"
    reset_socket_hub()
    a2, b2 = pair()
    if a2 is None or b2 is None:
        rep["problems"].append(f"round {rnd}: the sockets of the run after the reset did not connect")
        break
    a2.send("one")
    del old
    gc.collect()
    try:
        a2.send("two")
        got = [b2.recv(block=True, timeout=5), b2.recv(block=True, timeout=5)]
    except Exception as e:
        got = f"{type(e).__name__}"
    if got != ["one", "two"]:
        rep["problems"].append(f"round {rnd}: after the sockets of the run before the reset were let go, the live connection delivered {got} "
                               f"instead of ['one', 'two'] (connected: {a2.connected})")
        break
    rep["rounds"] += 1
    del a2, b2
    gc.collect()
    reset_socket_hub()
print(json.dumps(rep))
