"""L2/L3 harness: the repository's Executor / QNodeController / BaseNetQASMConnection driven for real,
subclassed only at their documented extension points, over the R-QUANTUM state-vector backend with a
scripted measurement oracle and a scripted link layer.

The driver owns the execution loop: `MonitoredExecutor._execute_command` yields a ('step', sid, pc, mnemonic)
event after every instruction and `_do_wait` yields ('wait',).  Everything else (parse, assemble, encode,
decode, flavour dispatch, register/array/unit-module bookkeeping, EPR bookkeeping) is repository code.
"""
from __future__ import annotations

from typing import Any, Callable, Dict, List, Optional

from netqasm.backend.executor import Executor
from netqasm.backend.network_stack import BaseNetworkStack
from netqasm.backend.qnodeos import QNodeController
from netqasm.lang.instr.base import DebugInstruction
from netqasm.sdk.connection import BaseNetQASMConnection, DebugConnection, DebugNetworkInfo

from vf.ref import quantum as rq


class StepLimit(BaseException):
    """Step bound; BaseException so the executor's own `except Exception` cannot swallow it."""


class Deadlock(Exception):
    """A wait that no deliverable response can end."""


class ControllerFault(Exception):
    """An exception raised by the executor while running a subroutine (kept with its original)."""

    def __init__(self, exc: BaseException):
        super().__init__(f"{type(exc).__name__}: {str(exc).splitlines()[0] if str(exc) else ''}")
        self.exc = exc


class MonitoredExecutor(Executor):
    def __init__(self, name=None, instr_log_dir=None, node_id: int = 0, script=None, step_limit: int = 20000, **kw):
        super().__init__(name=name, instr_log_dir=instr_log_dir, **kw)
        self._node_id = node_id
        self.sv = rq.StateVec()
        self.script = script if script is not None else rq.MeasScript()
        self.step_limit = step_limit
        self.steps = 0
        self.trace: List[tuple] = []      # quantum operations actually applied
        self.pc_trace: List[tuple] = []   # (subroutine id, pc, mnemonic)
        self.meas_log: List[tuple] = []   # (virtual id, outcome)
        self.ret_log: List[tuple] = []    # shared-memory publications at the moment of ret_*
        self.ret_mismatch: List[str] = []
        self.watch_host_view = False        # opt-in monitor: shared memory changes only at ret_* instructions
        self.host_view_leaks: List[str] = []
        self.inflight_phys: set = set()   # ids handed out by the link model for responses not consumed yet
        self._instruction_handlers["meas_basis"] = self._instr_meas_basis
        self._instruction_handlers["breakpoint"] = self._instr_breakpoint

    # ---- identity ----------------------------------------------------------------------
    @property
    def node_id(self) -> int:
        return self._node_id

    def _host_view(self, subroutine_id) -> dict:
        """Everything the host can currently read for the application of this subroutine."""
        try:
            shm = self._shared_memories[self._get_app_id(subroutine_id)]
            view = {f"@{a}": list(v) for a, v in shm._arrays._arrays.items()}
            for name, group in shm._registers.items():
                for i, v in group._get_active_values():
                    view[f"{name.name}{i}"] = v
            return view
        except Exception as e:  # noqa
            return {"unreadable": f"{type(e).__name__}: {e}"}

    # ---- stepping ------------------------------------------------------------------------
    def _execute_command(self, subroutine_id, command):
        pc = self._program_counters[subroutine_id]
        if isinstance(command, DebugInstruction):
            # comments of debug transpilations: the base executor's own business (it skips them); not a step of the program
            yield from super()._execute_command(subroutine_id, command)
            return
        before = self._host_view(subroutine_id) if self.watch_host_view else None
        try:
            yield from super()._execute_command(subroutine_id, command)
        finally:
            if before is not None and command.mnemonic not in ("ret_arr", "ret_reg"):
                after = self._host_view(subroutine_id)
                if after != before:
                    diff = next((f"{k}: {before.get(k)} -> {after.get(k)}" for k in sorted(set(before) | set(after), key=str)
                                 if before.get(k) != after.get(k)), "?")
                    self.host_view_leaks.append(f"'{command.mnemonic}' at line {pc} changed what the host reads from the shared "
                                                f"memory ({diff}); only ret_reg / ret_arr may")
        self.steps += 1
        self.pc_trace.append((subroutine_id, pc, command.mnemonic))
        if self.steps > self.step_limit:
            raise StepLimit()
        yield ("step", subroutine_id, pc, command.mnemonic)

    def _do_wait(self):
        self.steps += 1
        if self.steps > self.step_limit:
            raise StepLimit()
        yield ("wait",)

    def _wait_to_handle_epr_responses(self) -> None:
        return  # "sleep a little": the driver re-polls after every step

    # ---- backend: physical qubit memory ----------------------------------------------------
    def _phys(self, subroutine_id, address):
        # the three look-ups the base class offers a backend, used in turn (they are the same translation)
        self._phys_calls = getattr(self, "_phys_calls", 0) + 1
        if self._phys_calls % 3 == 0:
            return self._get_position(subroutine_id=subroutine_id, address=address)
        if self._phys_calls % 3 == 1:
            return self._get_positions(subroutine_id, [address])[0]
        app_id = self._get_app_id(subroutine_id)
        return self._get_position_in_unit_module(app_id, address)

    def _reserve_physical_qubit(self, physical_address):
        if not self.sv.has(("p", physical_address)):
            self.sv.add(("p", physical_address))
        self.inflight_phys.discard(physical_address)

    def _clear_phys_qubit_in_memory(self, physical_address):
        lab = ("p", physical_address)
        if self.sv.has(lab):
            # dropping a qubit that is still superposed / entangled is legal; it is discarded by a Z-projection with a
            # *deterministic* rule (0 whenever possible) that does not consume the measurement script, so that two
            # runs that only differ in the unspecified leftover state of a MOV source stay in step
            o = 0 if self.sv.prob1(lab) < 1 - 1e-9 else 1
            self.sv.remove(lab, o)
        self.trace.append(("clear", physical_address))

    # ---- backend: gates ----------------------------------------------------------------------
    def _do_single_qubit_instr(self, instr, subroutine_id, address):
        m = instr.mnemonic
        p = self._phys(subroutine_id, address)
        lab = ("p", p)
        if m == "init":
            o = self.script.choose(self.sv.prob1(lab))
            self.sv.project(lab, o)
            if o == 1:
                self.sv.apply1(lab, rq.X)
        elif m in rq.STATIC1:
            self.sv.apply1(lab, rq.STATIC1[m])
        else:
            raise RuntimeError(f"backend: unknown single-qubit instruction {m}")
        self.trace.append((m, address))
        return None

    def _do_single_qubit_rotation(self, instr, subroutine_id, address, angle):
        m = instr.mnemonic
        axis = {"rot_x": "x", "rot_y": "y", "rot_z": "z"}[m]
        self.sv.apply1(("p", self._phys(subroutine_id, address)), rq.rot(axis, angle))
        self.trace.append((m, address, instr.angle_num.value, instr.angle_denom.value))
        return None

    def _do_controlled_qubit_rotation(self, instr, subroutine_id, address1, address2, angle):
        m = instr.mnemonic
        axis = {"crot_x": "x", "crot_y": "y", "crot_z": "z"}[m]
        self.sv.apply2(("p", self._phys(subroutine_id, address1)), ("p", self._phys(subroutine_id, address2)),
                       rq.crot(axis, angle))
        self.trace.append((m, address1, address2, instr.angle_num.value, instr.angle_denom.value))
        return None

    def _do_two_qubit_instr(self, instr, subroutine_id, address1, address2):
        m = instr.mnemonic
        if m not in rq.STATIC2:
            raise RuntimeError(f"backend: unknown two-qubit instruction {m}")
        self.sv.apply2(("p", self._phys(subroutine_id, address1)), ("p", self._phys(subroutine_id, address2)),
                       rq.STATIC2[m])
        self.trace.append((m, address1, address2))
        return None

    def _do_meas(self, subroutine_id, q_address):
        lab = ("p", self._phys(subroutine_id, q_address))
        o = self.script.choose(self.sv.prob1(lab))
        self.sv.project(lab, o)
        self.meas_log.append((q_address, o))
        self.trace.append(("meas", q_address, o))
        return o

    def _instr_meas_basis(self, subroutine_id, instr):
        app_id = self._get_app_id(subroutine_id)
        q_address = self._get_register(app_id, instr.qreg)
        assert q_address is not None
        lab = ("p", self._phys(subroutine_id, q_address))
        d = instr.angle_denom.value
        for axis, num in (("x", instr.angle_num_x1.value), ("y", instr.angle_num_y.value), ("x", instr.angle_num_x2.value)):
            self.sv.apply1(lab, rq.rot(axis, rq.angle_nd(num, d)))
        o = self.script.choose(self.sv.prob1(lab))
        self.sv.project(lab, o)
        self.meas_log.append((q_address, o))
        self.trace.append(("meas_basis", q_address, instr.angle_num_x1.value, instr.angle_num_y.value,
                           instr.angle_num_x2.value, d, o))
        self._set_register(app_id, instr.creg, o)
        self._program_counters[subroutine_id] += 1
        return o

    def _instr_breakpoint(self, subroutine_id, instr):
        self._program_counters[subroutine_id] += 1

    # ---- shared memory publications at the moment of the ret_* instruction -------------------
    def _update_shared_memory(self, app_id, entry, value):
        from netqasm.lang.operand import Register
        if isinstance(entry, Register):
            self.ret_log.append((app_id, "reg", str(entry), value))
        else:
            self.ret_log.append((app_id, "arr", getattr(entry, "address", None), list(value) if isinstance(value, list) else value))
        out = super()._update_shared_memory(app_id=app_id, entry=entry, value=value)
        # what the host can read right after the ret_* instruction must be what was returned (observed at this moment:
        # whether the backend aliases or copies the list later is deliberately not judged)
        try:
            shm = self._shared_memories[app_id]
            if isinstance(entry, Register):
                got = shm.get_register(entry)
                if got != value:
                    self.ret_mismatch.append(f"ret_reg {entry}: host reads {got}, returned {value}")
            elif isinstance(value, list):
                got = list(shm._get_array(entry.address))
                if got != list(value):
                    self.ret_mismatch.append(f"ret_arr @{entry.address}: host reads {got}, returned {list(value)}")
        except Exception as e:  # noqa
            self.ret_mismatch.append(f"host cannot read what was returned for {entry}: {type(e).__name__}: {e}")
        return out

    # ---- views for oracles ------------------------------------------------------------------
    def unit_module(self, app_id) -> Optional[list]:
        um = self._qubit_unit_modules.get(app_id)
        return list(um) if um is not None else None

    def allocated_virtual(self, app_id) -> set:
        um = self._qubit_unit_modules.get(app_id) or []
        return {v for v, p in enumerate(um) if p is not None}

    def registers_snapshot(self, app_id) -> dict:
        out = {}
        regs = self._registers.get(app_id)
        if regs is None:
            return out
        for name, group in regs.items():
            for i in range(16):
                v = group[i]
                if v is not None:
                    out[f"{name.name}{i}"] = v
        return out

    def arrays_snapshot(self, app_id) -> dict:
        arrs = self._app_arrays.get(app_id)
        if arrs is None:
            return {}
        return {a: list(v) for a, v in arrs._arrays.items()}

    def state_by_virtual(self, app_id, extra_labels=()):
        """State vector ordered by virtual id of `app_id` followed by `extra_labels` (e.g. remote partners)."""
        um = self._qubit_unit_modules.get(app_id) or []
        order = [("p", p) for p in um if p is not None] + list(extra_labels)
        return self.sv.vector(order)


class RecordingStack(BaseNetworkStack):
    def __init__(self, purpose_of: Optional[Callable[[int, int], int]] = None):
        self.puts: List[Any] = []
        self.sockets: List[tuple] = []
        self.purpose_calls: List[tuple] = []
        self.purpose_of = purpose_of or (lambda remote_node_id, epr_socket_id: epr_socket_id)
        self.on_put: Optional[Callable[[Any], None]] = None

    def put(self, request) -> None:
        self.puts.append(request)
        if self.on_put is not None:
            self.on_put(request)

    def setup_epr_socket(self, epr_socket_id, remote_node_id, remote_epr_socket_id, timeout=1.0):
        self.sockets.append((epr_socket_id, remote_node_id, remote_epr_socket_id))
        return None

    def get_purpose_id(self, remote_node_id: int, epr_socket_id: int) -> int:
        self.purpose_calls.append((remote_node_id, epr_socket_id))
        return self.purpose_of(remote_node_id, epr_socket_id)


class MonitoredController(QNodeController):
    def __init__(self, name, flavour=None, **kw):
        super().__init__(name=name, flavour=flavour, **kw)
        self.finished_msgs: List[int] = []

    @classmethod
    def _get_executor_class(cls, flavour=None):
        return MonitoredExecutor

    def stop(self) -> None:
        pass

    def _mark_message_finished(self, msg_id, msg) -> None:
        self.finished_msgs.append(msg_id)

    @property
    def executor(self) -> MonitoredExecutor:
        return self._executor  # type: ignore


def drive(gen, executor: MonitoredExecutor, on_event: Optional[Callable[[tuple], None]] = None):
    """Consume a controller/executor generator.  `on_event(ev)` is called for every ('step',..)/('wait',) event;
    for a wait it must make progress possible (deliver a response) or raise Deadlock."""
    try:
        for ev in gen:
            if ev is None:
                continue
            if on_event is not None:
                on_event(ev)
            elif ev[0] == "wait":
                raise Deadlock("wait with no link layer attached")
    except (StepLimit, Deadlock):
        raise
    except Exception as exc:
        raise ControllerFault(exc) from exc


def reset_globals():
    """Process-global state of the SDK/runtime that must be reset between cases."""
    from netqasm.runtime.settings import set_is_using_hardware
    from netqasm.sdk.classical_communication.thread_socket.socket_hub import reset_socket_hub
    from netqasm.sdk.shared_memory import SharedMemoryManager
    SharedMemoryManager.reset_memories()
    BaseNetQASMConnection._app_ids.clear()
    BaseNetQASMConnection._app_names.clear()
    try:
        reset_socket_hub()
    except Exception:
        pass
    set_is_using_hardware(False)


class PipelineConnection(BaseNetQASMConnection):
    """SDK connection whose serialized messages are decoded with the repo's own deserialisers and handed to a
    real QNodeController (so encode, decode, flavour dispatch and message framing are on every run's path)."""

    def __init__(self, app_name, controller: MonitoredController, on_event=None, capture=None, **kw):
        self._controller = controller
        self._on_event = on_event
        self._msg_id = 0
        self.raw_messages: List[bytes] = []
        self.subroutines: List[Any] = []      # decoded Subroutine objects as the controller saw them
        self.capture = capture
        kw.setdefault("node_name", controller.name)
        super().__init__(app_name=app_name, **kw)

    def _get_network_info(self):
        return DebugNetworkInfo

    def _commit_serialized_message(self, raw_msg: bytes, block: bool = True, callback=None) -> None:
        from netqasm.backend.messages import MessageType, deserialize_host_msg
        from netqasm.lang.parsing import deserialize
        self.raw_messages.append(raw_msg)
        msg = deserialize_host_msg(raw_msg)
        if msg.TYPE == MessageType.SUBROUTINE:
            self.subroutines.append(deserialize(msg.subroutine, flavour=self._controller.flavour))
        mid = self._msg_id
        self._msg_id += 1
        drive(self._controller.handle_netqasm_message(mid, msg), self._controller.executor, self._on_event)
        if callback is not None:
            callback()


# ---- the same backend with generator-form hooks ---------------------------------------------------------------------------
# A simulator backend (SquidASM) implements the executor's hooks as generators that yield to its event loop; the base executor
# accepts both forms at every call site. Every other MonitoredExecutor that is built answers its hooks in generator form: whatever
# a check observes must not depend on the form.
_HOOKS = ("_do_single_qubit_instr", "_do_single_qubit_rotation", "_do_controlled_qubit_rotation", "_do_two_qubit_instr", "_do_meas",
          "_clear_phys_qubit_in_memory")
_built = {"n": 0}


def _as_generator(plain):
    def hook(*a, **kw):
        yield None          # (an event of the backend's own loop: ignored by the drivers)
        return plain(*a, **kw)
    return hook


_orig_init = MonitoredExecutor.__init__


def _init_with_hook_form(self, *a, **kw):
    _orig_init(self, *a, **kw)
    _built["n"] += 1
    self.generator_hooks = _built["n"] % 2 == 0
    if self.generator_hooks:
        for name in _HOOKS:
            setattr(self, name, _as_generator(getattr(self, name)))


MonitoredExecutor.__init__ = _init_with_hook_form


def make_node(name="alice", node_id=0, flavour=None, script=None, step_limit=20000, stack=None):
    ctrl = MonitoredController(name=name, flavour=flavour, node_id=node_id, script=script, step_limit=step_limit)
    if stack is not None:
        ctrl.network_stack = stack
    return ctrl


def set_node_ids(mapping: Dict[str, int]):
    DebugConnection.node_ids = dict(mapping)
