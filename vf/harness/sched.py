"""Controlled thread scheduler for C18.

Real `threading.Thread`s, one per endpoint, but only the thread holding the baton runs.  `sys.monitoring` delivers a
LINE event for every statement executed in the thread-socket modules; that callback is a *yield point* at which the
scheduler may hand the baton to another thread.  `socket_hub.sleep` / `socket_hub.timer` (and the broadcast channel's
timer) are patched: sleeping is a forced yield and advances a virtual clock, so polling loops neither burn wall time
nor livelock and timeouts are decided on logical time.  The hub's lock is replaced by a scheduler-aware lock (a thread
pre-empted inside a critical section must not make the next thread block on a real OS lock while it holds the baton).

A schedule is the list of choices taken; it is the replay file.
"""
from __future__ import annotations

import sys
import threading
from typing import Callable, Dict, List, Optional

TOOL_ID = 4
TARGET_SUFFIXES = ("thread_socket/socket_hub.py", "thread_socket/socket.py", "classical_communication/broadcast_channel.py",
                   "thread_socket/broadcast_channel.py")


class SchedBound(BaseException):
    pass


class SchedDeadlock(BaseException):
    pass


class Scheduler:
    def __init__(self, chooser: Callable[["Scheduler", List[str], bool], int], step_bound: int = 6000):
        self.chooser = chooser
        self.step_bound = step_bound
        self.bodies: Dict[str, Callable[[], None]] = {}
        self.order: List[str] = []
        self.go: Dict[str, threading.Event] = {}
        self.threads: Dict[str, threading.Thread] = {}
        self.by_ident: Dict[int, str] = {}
        self.finished: Dict[str, bool] = {}
        self.blocked_on: Dict[str, object] = {}
        self.sleeping_until: Dict[str, float] = {}
        self.current: Optional[str] = None
        self.clock = 0.0
        self.steps = 0
        self.choices: List[int] = []
        self.preemptions = 0
        self.yield_sites: Dict[str, int] = {}
        self.errors: Dict[str, BaseException] = {}
        self.done = threading.Event()
        self.aborted: Optional[str] = None
        self.log: List[tuple] = []           # history events appended by thread bodies (only baton holder writes)
        self.progress = 0
        self.sleep_calls: Dict[str, int] = {}
        self._progress_at_idle = -1
        self._clock_at_progress = 0.0
        self.barren_rounds = 0
        self.early_wakes = 0
        self.early_wake_cap = 30

    def record(self, ev: tuple) -> None:
        """Append a history event (only the baton holder calls this). Returns of operations count as progress."""
        self.log.append(ev)
        if ev[0] in ("ret", "callback"):
            self.progress += 1

    # ---- setup -------------------------------------------------------------------------------------------
    def spawn(self, name: str, body: Callable[[], None]) -> None:
        self.bodies[name] = body
        self.order.append(name)
        self.go[name] = threading.Event()
        self.finished[name] = False

    def _runner(self, name: str) -> None:
        self.by_ident[threading.get_ident()] = name
        self.go[name].wait()
        try:
            if self.aborted is None:
                self.bodies[name]()
        except (SchedBound, SchedDeadlock) as e:
            self.aborted = self.aborted or type(e).__name__
        except BaseException as e:  # noqa: recorded, judged by the check
            self.errors[name] = e
        finally:
            self.finished[name] = True
            self._switch_from_finished(name)

    def run(self, wall_timeout: float = 20.0) -> None:
        for name in self.order:
            t = threading.Thread(target=self._runner, args=(name,), daemon=True, name=f"vf-{name}")
            self.threads[name] = t
            t.start()
        first = self._choose(list(self.order), forced=True)
        self.current = first
        self.go[first].set()
        if not self.done.wait(wall_timeout):
            self.aborted = self.aborted or "wall-clock watchdog"
            # release everything so that daemon threads can unwind
            for ev in self.go.values():
                ev.set()

    # ---- choosing ---------------------------------------------------------------------------------------------
    def runnable(self, exclude: Optional[str] = None) -> List[str]:
        out = []
        for n in self.order:
            if self.finished[n] or n == exclude:
                continue
            if n in self.blocked_on:
                continue
            if self.sleeping_until.get(n, -1.0) > self.clock:
                continue
            out.append(n)
        return out

    def sleepers(self, exclude: Optional[str] = None) -> List[str]:
        return [n for n in self.order if not self.finished[n] and n != exclude and n not in self.blocked_on
                and self.sleeping_until.get(n, -1.0) > self.clock]

    def _advance_clock_if_idle(self) -> None:
        """Discrete-event rule: virtual time only passes when nobody can run. If the same idle situation repeats without
        any operation completing in between, nothing will ever change: jump far ahead so that timeouts fire."""
        if self.runnable():
            return
        sl = self.sleepers()
        if not sl:
            return
        if self.progress != self._progress_at_idle:
            self._progress_at_idle = self.progress
            self._clock_at_progress = self.clock
        if self.clock - self._clock_at_progress > 3.0:
            # every sleeper polled >= 30 times since the last completed operation and nobody can run: nothing will change
            self.barren_rounds += 1
            self.clock += 100000.0
        else:
            self.clock = max(self.clock, min(self.sleeping_until[n] for n in sl))

    def _choose(self, cands: List[str], forced: bool) -> str:
        if len(cands) == 1:
            return cands[0]
        i = self.chooser(self, cands, forced)
        self.choices.append(i)
        return cands[i]

    def _handover(self, me: str, nxt: str) -> None:
        if nxt == me:
            return
        self.current = nxt
        self.go[me].clear()
        self.go[nxt].set()
        self.go[me].wait()
        if self.aborted is not None:
            raise SchedBound()

    def _switch_from_finished(self, me: str) -> None:
        self._advance_clock_if_idle()
        cands = self.runnable()
        if not cands:
            if all(self.finished.values()):
                self.done.set()
            else:
                # everybody left is blocked on a lock held by nobody runnable
                self.aborted = self.aborted or "deadlock"
                for ev in self.go.values():
                    ev.set()
                self.done.set()
            return
        nxt = self._choose(cands, forced=True)
        self.current = nxt
        self.go[nxt].set()

    # ---- yield points (called by the thread that holds the baton) -----------------------------------------------
    def _me(self) -> Optional[str]:
        return self.by_ident.get(threading.get_ident())

    def yield_point(self, site: str) -> None:
        me = self._me()
        if me is None or me != self.current or self.aborted is not None:
            return
        self.steps += 1
        self.yield_sites[site] = self.yield_sites.get(site, 0) + 1
        if self.steps > self.step_bound:
            self.aborted = "step bound"
            for ev in self.go.values():
                ev.set()
            raise SchedBound()
        others = self.runnable(exclude=me)
        early = self.sleepers(exclude=me) if self.early_wakes < self.early_wake_cap else []
        if not others and not early:
            return
        nxt = self._choose([me] + others + early, forced=False)
        if nxt != me:
            if nxt in early:
                # the current thread was slow: the sleeper's time is up
                self.early_wakes += 1
                self.clock = max(self.clock, self.sleeping_until[nxt])
            self.preemptions += 1
            self._handover(me, nxt)

    def forced_yield(self) -> None:
        me = self._me()
        if me is None or me != self.current or self.aborted is not None:
            return
        self.steps += 1
        if self.steps > self.step_bound:
            self.aborted = "step bound"
            for ev in self.go.values():
                ev.set()
            raise SchedBound()
        self._advance_clock_if_idle()
        cands = self.runnable()
        if not cands:
            return
        if cands == [me]:
            return
        nxt = self._choose(cands, forced=True)
        self._handover(me, nxt)

    # ---- virtual time ---------------------------------------------------------------------------------------------
    def vtime(self) -> float:
        return self.clock

    def vsleep(self, dt: float) -> None:
        me = self._me()
        if me is None or self.aborted is not None:
            return
        self.sleep_calls[me] = self.sleep_calls.get(me, 0) + 1
        self.sleeping_until[me] = self.clock + max(dt, 1e-6)
        self.forced_yield()
        self.sleeping_until.pop(me, None)

    def vtimer_tick(self) -> float:
        """timer() of a busy polling loop without sleep (broadcast channel): treated as a very short sleep."""
        self.vsleep(0.1)
        return self.clock


class SchedLock:
    """Scheduler-aware replacement of the hub's threading.Lock."""

    def __init__(self, sched: Scheduler, reentrant: bool = False):
        self.s = sched
        self.owner: Optional[str] = None
        # mirrors the kind of lock the hub was built with: a thread that takes a plain Lock twice waits for itself
        self.reentrant = reentrant
        self.depth = 0
        self.real = threading.RLock() if reentrant else threading.Lock()

    def acquire(self, blocking: bool = True, timeout: float = -1) -> bool:
        me = self.s._me()
        if me is None:
            return self.real.acquire(blocking, timeout)
        if self.reentrant and self.owner == me:
            self.depth += 1
            return True
        while self.owner is not None:
            self.s.blocked_on[me] = self
            others = self.s.runnable(exclude=me)
            if not others:
                self.s.blocked_on.pop(me, None)
                self.s.aborted = "deadlock on the hub lock"
                for ev in self.s.go.values():
                    ev.set()
                raise SchedDeadlock()
            nxt = self.s._choose(others, forced=True)
            self.s._handover(me, nxt)
            self.s.blocked_on.pop(me, None)
        self.owner = me
        self.depth = 1
        return True

    def release(self) -> None:
        me = self.s._me()
        if me is None:
            try:
                self.real.release()
            except RuntimeError:
                pass
            return
        self.depth -= 1
        if self.depth > 0:
            return
        self.owner = None
        for n, l in list(self.s.blocked_on.items()):
            if l is self:
                self.s.blocked_on.pop(n, None)

    def __enter__(self):
        self.acquire()
        return self

    def __exit__(self, *a):
        self.release()

    def locked(self) -> bool:
        return self.owner is not None


_installed = {"on": False, "sched": None}


def _quiet_excepthook(args):
    if issubclass(args.exc_type, (SchedBound, SchedDeadlock)):
        return
    threading.__excepthook__(args)


threading.excepthook = _quiet_excepthook


def _line_callback(code, line):
    try:
        if not code.co_filename.endswith(TARGET_SUFFIXES):
            return sys.monitoring.DISABLE
    except Exception:   # interpreter shutdown
        return None
    fn = code.co_filename
    s = _installed["sched"]
    if s is not None:
        s.yield_point(f"{fn.rsplit('/', 1)[-1]}:{code.co_name}")
    return None


def install(sched: Scheduler) -> None:
    """Patch the thread-socket modules and switch the LINE monitor on for this schedule."""
    import netqasm.sdk.classical_communication.broadcast_channel as bc
    import netqasm.sdk.classical_communication.thread_socket.socket_hub as hubmod
    _installed["sched"] = sched
    if not _installed["on"]:
        _installed["orig"] = (hubmod.sleep, hubmod.timer, bc.timer)
        sys.monitoring.use_tool_id(TOOL_ID, "vf-sched")
        sys.monitoring.register_callback(TOOL_ID, sys.monitoring.events.LINE, _line_callback)
        sys.monitoring.set_events(TOOL_ID, sys.monitoring.events.LINE)
        _installed["on"] = True
    hubmod.sleep = sched.vsleep
    hubmod.timer = sched.vtime
    bc.timer = sched.vtimer_tick
    hubmod.reset_socket_hub()
    hubmod._socket_hub._lock = SchedLock(sched, reentrant=not isinstance(hubmod._socket_hub._lock, type(threading.Lock())))


def uninstall() -> None:
    import netqasm.sdk.classical_communication.broadcast_channel as bc
    import netqasm.sdk.classical_communication.thread_socket.socket_hub as hubmod
    _installed["sched"] = None
    if _installed["on"]:
        hubmod.sleep, hubmod.timer, bc.timer = _installed["orig"]
        sys.monitoring.set_events(TOOL_ID, 0)
        sys.monitoring.register_callback(TOOL_ID, sys.monitoring.events.LINE, None)
        sys.monitoring.free_tool_id(TOOL_ID)
        _installed["on"] = False
    hubmod.reset_socket_hub()
