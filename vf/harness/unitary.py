"""Unitary extraction: run a (transpiled) gate program on the real Executor over the R-QUANTUM backend with the
register maximally entangled to reference qubits (Choi state), so one run yields the whole unitary,
electron and bystanders included."""
from __future__ import annotations

import numpy as np

from vf.harness import codec
from vf.harness import controller as hc
from vf.ref import quantum as rq


class GateBench:
    def __init__(self, nq: int = 4):
        self.nq = nq
        hc.reset_globals()
        self.ex = hc.MonitoredExecutor(name="bench", node_id=0, step_limit=100000)
        self.ex.init_new_application(app_id=0, max_qubits=nq)
        alloc = []
        for v in range(nq):
            alloc += [["set", [["Q", 0], v]], ["qalloc", [["Q", 0]]], ["init", [["Q", 0]]]]
        hc.drive(self.ex.execute_subroutine(codec.mk_subroutine("vanilla", [0, 10], 0, alloc)), self.ex, None)
        self.phys = [self.ex._qubit_unit_modules[0][v] for v in range(nq)]

    def sys_labels(self):
        return [("p", p) for p in self.phys]

    def ref_labels(self):
        return [("ref", v) for v in range(self.nq)]

    def choi(self, product_zero=()):
        """Choi state; qubits listed in product_zero are in |0> and unentangled (their ref stays |0> too)."""
        n = self.nq
        sv = rq.StateVec()
        sv.labels = self.sys_labels() + self.ref_labels()
        dim = 2 ** n
        t = np.zeros((dim, dim), dtype=complex)
        cnt = 0
        for b in range(dim):
            bits = [(b >> (n - 1 - v)) & 1 for v in range(n)]
            if any(bits[v] for v in product_zero):
                continue
            t[b, b] = 1
            cnt += 1
        t /= np.sqrt(cnt)
        sv.t = t.reshape((2,) * (2 * n))
        return sv

    def run(self, sub, sv):
        self.ex.sv = sv
        self.ex.steps = 0
        self.ex.trace = []
        hc.drive(self.ex.execute_subroutine(sub), self.ex, None)
        return self.ex.sv

    def tensor(self, sv):
        return sv.vector(self.sys_labels() + self.ref_labels())


def ideal(bench: GateBench, ops, product_zero=()):
    """Apply ideal operators [(matrix, [virtual ids])] to a fresh Choi state."""
    sv = bench.choi(product_zero)
    labs = bench.sys_labels()
    for u, qs in ops:
        if len(qs) == 1:
            sv.apply1(labs[qs[0]], u)
        else:
            sv.apply2(labs[qs[0]], labs[qs[1]], u)
    return sv
