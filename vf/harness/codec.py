"""Bridge between JSON-able instruction descriptions (vf.ref.isa conventions) and the repository's
instruction objects.  Only public surfaces are used: flavours (classes looked up *by mnemonic*),
`from_operands`, `.operands`, `bytes()`, `deserialize`, `parse_text_subroutine`.
"""
from __future__ import annotations

import random
from typing import List

from vf.ref import isa


def flavours():
    from netqasm.lang.instr import flavour as fl
    return {"vanilla": fl.VanillaFlavour, "nv": fl.NVFlavour, "reids": fl.REIDSFlavour}


_LONG_LIVED = {}


def flavour_obj(name: str):
    """Long-lived flavour objects, created once in the order vanilla, nv, reids (a controller keeps its flavour
    object for its whole life while other flavours come and go in the same process)."""
    if not _LONG_LIVED:
        for n in ("vanilla", "nv", "reids"):
            _LONG_LIVED[n] = flavours()[n]()
    return _LONG_LIVED[name]


def fresh_flavour(name: str):
    return flavours()[name]()


def flavour_classes(name: str) -> list:
    """Instruction classes the working tree declares for the flavour (core + flavour specific)."""
    from netqasm.lang.instr import flavour as fl
    f = fresh_flavour(name)
    return list(fl.CORE_INSTRUCTIONS) + list(f.instrs)


def mk_reg(v):
    from netqasm.lang.encoding import RegisterName
    from netqasm.lang.operand import Register
    return Register(RegisterName[v[0]], v[1])


def mk_operand(kind: str, v):
    from netqasm.lang import operand as op
    if kind == isa.R:
        return mk_reg(v)
    if kind in (isa.I8, isa.I32):
        return op.Immediate(v)
    if kind == isa.AD:
        return op.Address(v)
    if kind == isa.EN:
        return op.ArrayEntry(op.Address(v[0]), mk_reg(v[1]))
    if kind == isa.SL:
        return op.ArraySlice(op.Address(v[0]), mk_reg(v[1]), mk_reg(v[2]))
    raise ValueError(kind)


def mk_instr(fobj, flavour: str, mnemonic: str, values: list):
    cls = fobj.get_instr_by_name(mnemonic)
    _, kinds = isa.TABLE[flavour][mnemonic]
    return cls.from_operands([mk_operand(k, v) for k, v in zip(kinds, values)])


def mk_instr_cls(cls, kinds, values):
    return cls.from_operands([mk_operand(k, v) for k, v in zip(kinds, values)])


def edit_in_place(instr, donor, named: bool = False, nested: bool = False) -> None:
    """Overwrite the operand fields of `instr` with those of `donor` (same class), the way a consumer such as the NV
    transpiler edits instructions it was handed (`instr.line = ...`, `instr.reg0 = ...`)."""
    import dataclasses
    if named:
        # first through the NAMED accessors alone: what a setter was given is what its getter returns afterwards
        for name in dir(type(instr)):
            prop = getattr(type(instr), name, None)
            if isinstance(prop, property) and prop.fset is not None and not name.startswith("_") and name not in ("operands",):
                try:
                    want = getattr(donor, name)
                    setattr(instr, name, want)
                    got = getattr(instr, name)
                except Exception:
                    continue
                if got != want:
                    raise AssertionError(f"{type(instr).__name__}.{name} was set to {want} and reads back {got}")
    for f in dataclasses.fields(instr):
        if f.name not in ("id", "mnemonic", "lineno"):
            cur, new = getattr(instr, f.name), getattr(donor, f.name)
            if nested and type(cur) is type(new) and type(cur).__name__ in ("ArrayEntry", "ArraySlice"):
                # the array operand object stays, its own fields are rewritten (entry.index = ..., slice.stop = ...): what
                # the assembler does when it resolves a proto entry's integer index into a register
                for g in dataclasses.fields(cur):
                    setattr(cur, g.name, getattr(new, g.name))
                continue
            setattr(instr, f.name, new)
    if named and not nested:
        # ... and once more through the operand's NAMED accessors (instr.ent_results_array = ..., instr.angle_num = ...), which a
        # compiler pass would rather use than reg3 / imm0: each must write the field it reads
        for name in dir(type(instr)):
            prop = getattr(type(instr), name, None)
            if isinstance(prop, property) and prop.fset is not None and not name.startswith("_") and name not in ("operands",):
                try:
                    setattr(instr, name, getattr(donor, name))
                except Exception:
                    pass


def describe_operand(o):
    from netqasm.lang import operand as op
    if isinstance(o, op.Register):
        return [o.name.name, o.index]
    if isinstance(o, op.Immediate):
        return o.value
    if isinstance(o, op.Address):
        return o.address
    if isinstance(o, op.ArrayEntry):
        idx = o.index
        return [o.address.address if hasattr(o.address, "address") else o.address,
                describe_operand(idx) if not isinstance(idx, int) else idx]
    if isinstance(o, op.ArraySlice):
        return [o.address.address if hasattr(o.address, "address") else o.address,
                describe_operand(o.start) if not isinstance(o.start, int) else o.start,
                describe_operand(o.stop) if not isinstance(o.stop, int) else o.stop]
    if isinstance(o, int):
        return o
    return repr(o)


def describe_instr(instr):
    return [instr.mnemonic, [describe_operand(o) for o in instr.operands]]


def mk_subroutine(flavour: str, version, app_id, instrs: list):
    from netqasm.lang.subroutine import Subroutine
    fobj = flavour_obj(flavour)
    return Subroutine(netqasm_version=tuple(version), app_id=app_id,
                      instructions=[mk_instr(fobj, flavour, m, v) for m, v in instrs])


# ---- value generators ---------------------------------------------------------------------------

INT32_EDGE = [1023456789, -1023456789, -1987654320, 2013456789, 1111111111, -2000000000,      # digit structure: all ten digits, one digit
              0, 1, -1, 2, 127, 128, 255, 256, 32767, 32768, 65535, 65536, 2**31 - 1, -(2**31), 2**31 - 2,
              -(2**31) + 1, 2**24, -(2**24), 0x01020304, -0x01020304] + [1 << b for b in range(31)] + \
             [-(1 << b) for b in range(1, 31)]
IMM8_EDGE = [0, 1, 2, 127, 128, 254, 255] + [1 << b for b in range(8)]


def rand_reg(rng: random.Random):
    return [rng.choice("RCQM"), rng.randrange(16)]


def rand_value(rng: random.Random, kind: str, edge_p: float = 0.4):
    if kind == isa.R:
        return rand_reg(rng)
    if kind == isa.I8:
        return rng.choice(IMM8_EDGE) if rng.random() < edge_p else rng.randrange(256)
    if kind in (isa.I32, isa.AD):
        return rng.choice(INT32_EDGE) if rng.random() < edge_p else rng.randint(-(2**31), 2**31 - 1)
    if kind == isa.EN:
        return [rand_value(rng, isa.AD, edge_p), rand_reg(rng)]
    if kind == isa.SL:
        return [rand_value(rng, isa.AD, edge_p), rand_reg(rng), rand_reg(rng)]
    raise ValueError(kind)


def rand_values(rng: random.Random, kinds: List[str], edge_p: float = 0.4) -> list:
    return [rand_value(rng, k, edge_p) for k in kinds]


def leaf_positions(kinds: List[str]):
    """Flattened field positions: (operand index, sub index or None, leaf kind)."""
    out = []
    for i, k in enumerate(kinds):
        if k == isa.EN:
            out += [(i, 0, isa.AD), (i, 1, isa.R)]
        elif k == isa.SL:
            out += [(i, 0, isa.AD), (i, 1, isa.R), (i, 2, isa.R)]
        else:
            out.append((i, None, k))
    return out


def set_leaf(values: list, pos, v) -> list:
    i, sub, _ = pos
    vals = [list(x) if isinstance(x, list) else x for x in values]
    if sub is None:
        vals[i] = v
    else:
        vals[i] = list(vals[i])
        vals[i][sub] = v
    return vals


def all_leaf_values(kind: str, thorough: bool):
    if kind == isa.R:
        return [[b, i] for b in "RCQM" for i in range(16)]
    if kind == isa.I8:
        return list(range(256))
    return list(INT32_EDGE)
