"""Small helpers on top of the L3 pipeline."""
from __future__ import annotations

from vf.harness import controller as hc


def emitted_subroutines(prog, max_qubits=5, hardware_config=None, compiler=None, flavour=None):
    """Run `prog(conn)` inside a pipeline connection and return the subroutines as the controller decoded them."""
    hc.reset_globals()
    hc.set_node_ids({"alice": 0, "bob": 1})
    ctrl = hc.make_node("alice", node_id=0, flavour=flavour, stack=hc.RecordingStack())
    kw = {}
    if hardware_config is not None:
        kw["hardware_config"] = hardware_config
    if compiler is not None:
        kw["compiler"] = compiler
    conn = hc.PipelineConnection("alice", ctrl, max_qubits=max_qubits, **kw)
    with conn:
        prog(conn)
    return conn.subroutines
