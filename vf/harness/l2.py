"""L2 harness: run instruction-level programs on the real base Executor and compare with R-INTERP."""
from __future__ import annotations

import re
from typing import List, Optional

from vf.harness import codec
from vf.harness import controller as hc
from vf.ref import interp as ri


class _Blocked(BaseException):
    pass


def _on_event(ev):
    if ev[0] == "wait":
        raise _Blocked()


def fault_line(exc: BaseException) -> Optional[int]:
    m = re.match(r"\s*At line (\d+)", str(exc))
    return int(m.group(1)) if m else None


class ExecSide:
    """The real executor for one case."""

    def __init__(self, name="node", node_id=0, step_limit=5000, script=None):
        hc.reset_globals()
        self.name = name
        self.ex = hc.MonitoredExecutor(name=name, node_id=node_id, step_limit=step_limit, script=script)

    def init_app(self, app_id, unit):
        self.ex.init_new_application(app_id=app_id, max_qubits=unit)

    def run_subroutine(self, sub):
        """Returns (outcome, info) with outcome in done / fault / blocked / bound."""
        ex = self.ex
        n0 = len(ex.pc_trace)
        # the step limit is per subroutine, like the reference's step bound (a cumulative count made a long history that is run
        # a second time hit the limit where the reference - counting per subroutine - still reaches its fault)
        ex.steps = 0
        try:
            hc.drive(ex.execute_subroutine(sub), ex, _on_event)
            out, info = "done", {}
        except _Blocked:
            out, info = "blocked", {}
        except hc.StepLimit:
            out, info = "bound", {}
        except hc.ControllerFault as cf:
            out, info = "fault", {"line": fault_line(cf.exc), "exc": f"{type(cf.exc).__name__}: {str(cf.exc).splitlines()[0][:160]}"}
        info["trace"] = [pc for (_, pc, _) in ex.pc_trace[n0:]]
        return out, info

    def run(self, app_id, prog, version=(0, 10)):
        sub = codec.mk_subroutine("vanilla", version, app_id, prog)
        return self.run_subroutine(sub)

    def app_view(self, app_id):
        ex = self.ex
        return {"regs": ex.registers_snapshot(app_id), "arrays": ex.arrays_snapshot(app_id),
                "unit": [p is not None for p in (ex.unit_module(app_id) or [])],
                "pubs": [(k, a, v) for (app, k, a, v) in ex.ret_log if app == app_id]}


def ref_view(state: ri.AppState):
    return {"regs": dict(state.regs), "arrays": {a: list(v) for a, v in state.arrays.items()},
            "unit": list(state.unit), "pubs": [tuple(p) for p in state.pubs]}


def diff_views(got: dict, want: dict) -> Optional[str]:
    for k in ("regs", "arrays", "unit", "pubs"):
        g, w = got[k], want[k]
        if k == "pubs":
            g = [tuple(x) for x in g]
            w = [tuple(x) for x in w]
        if g != w:
            if isinstance(g, dict):
                keys = sorted(set(g) | set(w), key=str)
                d = {kk: (g.get(kk, "⊥"), w.get(kk, "⊥")) for kk in keys if g.get(kk, "⊥") != w.get(kk, "⊥")}
                return f"{k} differ (executor, reference): {d}"
            return f"{k} differ: executor {g} reference {w}"
    return None
