"""Systematic exploration of interleavings between instruction progress and link-layer response arrivals (C12, C13).

Stateless model checking by re-execution: a schedule is a list of choices; each complete schedule is executed once on
a fresh real Executor; choices available at a point depend only on the prefix.  Partial-order reduction by
construction: silent classical instructions are executed together with the next *visible* instruction.
"""
from __future__ import annotations

import random
from typing import Dict, List, Optional

from vf.harness import controller as hc
from vf.ref.linklayer import OK_FIELDS, Request, RLink

VISIBLE = {"create_epr", "recv_epr", "wait_all", "wait_any", "wait_single", "qalloc", "qfree", "ret_arr", "load"}


class Violation(Exception):
    pass


class Run:
    def __init__(self, scenario: dict):
        from netqasm.lang.parsing.text import parse_text_subroutine
        hc.reset_globals()
        self.sc = scenario
        self.purpose_map: Dict[tuple, int] = {}
        for r_, s_, p_ in scenario.get("purpose_map") or []:
            # a network stack whose purpose ids are per (remote node, socket id), not the socket id itself
            self.purpose_map[(r_, s_)] = p_
        self.stack = hc.RecordingStack(purpose_of=lambda remote, socket: self.purpose_map.get((remote, socket), socket))
        if scenario.get("stack_refuses_priority") is not None:
            # a network stack that refuses (raises on) requests of a priority it does not serve
            def refuse(request, _p=scenario["stack_refuses_priority"]):
                if getattr(request, "priority", None) == _p:
                    self.stack.puts.pop()
                    raise RuntimeError(f"request refused by the network stack: priority {_p} is not served")
            self.stack.on_put = refuse
        self.ex = hc.MonitoredExecutor(name="node", node_id=scenario.get("node_id", 0), step_limit=5000)
        self.ex.network_stack = self.stack
        self.subs = []
        self.gens = []
        self.state = []          # 'ready' | 'blocked' | 'done'
        self.changed = []        # something happened since the generator blocked
        self.app_requests: Dict[int, list] = {}
        self.next_req: Dict[int, int] = {}
        registered = set()
        for a in scenario["apps"]:
            if a["app"] not in registered:       # several entries with one app id = several subroutines of that application
                self.ex.init_new_application(app_id=a["app"], max_qubits=a["unit"])
                registered.add(a["app"])
            sub = parse_text_subroutine(f"# NETQASM 1.0\n# APPID {a['app']}\n" + a["text"])
            self.subs.append(sub)
            self.gens.append(self.ex.execute_subroutine(sub))
            self.state.append("ready")
            self.changed.append(True)
            self.app_requests[a["app"]] = [r for r in scenario["requests"] if r["app"] == a["app"]]
            self.next_req.setdefault(a["app"], 0)
        self.wait_regs: Dict[int, dict] = {}
        self.stopped: set = set()
        self.opened: set = set()
        self.stops = 0
        self.final_arrays: Dict[int, dict] = {}
        self.final_units: Dict[int, list] = {}
        self.rlink = RLink()
        self.issued_pairs: Dict[tuple, int] = {}
        self.delivered: Dict[int, int] = {i: 0 for i in range(len(scenario["streams"]))}
        self.rid = 0
        self.consumed: List[tuple] = []      # (response rid, result array address, app, pair index)
        self.events: List[tuple] = []
        self.deferred_events = 0
        self.early_arrivals = 0
        self._wrap_monitors()

    # ---- monitors (online) -----------------------------------------------------------------------------
    def _wrap_monitors(self):
        ex = self.ex
        orig_store = ex._store_ent_info

        def store(epr_cmd_data, response, pair_index):
            app = ex._get_app_id(epr_cmd_data.subroutine_id)
            self.consumed.append((response.create_id, epr_cmd_data.ent_results_array_address, app, pair_index))
            return orig_store(epr_cmd_data=epr_cmd_data, response=response, pair_index=pair_index)
        ex._store_ent_info = store
        orig_alloc = ex._allocate_physical_qubit

        def alloc(subroutine_id, virtual_address, physical_address=None):
            um = ex._get_unit_module(subroutine_id)
            if physical_address is not None and 0 <= virtual_address < len(um) and um[virtual_address] is not None:
                raise Violation(f"a keep-response is mapped onto virtual qubit {virtual_address}, which is still allocated "
                                f"(physical {um[virtual_address]})")
            return orig_alloc(subroutine_id, virtual_address, physical_address)
        ex._allocate_physical_qubit = alloc

    # ---- choices ------------------------------------------------------------------------------------------
    def choices(self) -> List[tuple]:
        out = []
        for i, st in enumerate(self.state):
            after = self.sc["apps"][i].get("after")
            if after is not None and after not in self.stopped:
                continue                      # this application is started by its host only after that one was closed
            after_done = self.sc["apps"][i].get("after_done")
            if after_done is not None and self.state[after_done] != "done":
                continue                      # the host sends this subroutine after that one has returned
            if self.sc["apps"][i].get("open_socket") and i not in self.opened:
                out.append(("open", i))       # its host opens the EPR socket first (at any time before the subroutine is sent)
                continue
            if st == "ready" or (st == "blocked" and self.changed[i]):
                out.append(("step", i))
        for i, st in enumerate(self.state):
            if st == "done" and self.sc["apps"][i].get("stop") and i not in self.stopped:
                out.append(("stop", i))       # the host closes this application while others go on
        for si, s in enumerate(self.sc["streams"]):
            if self.delivered[si] >= len(s["responses"]):
                continue
            key = tuple(s["key"])
            if key[2] == "create" and self.delivered[si] >= self.issued_pairs.get(key, 0):
                continue   # a create-role response cannot precede its request
            gate = s["responses"][self.delivered[si]].get("after_stop")
            if gate is not None and gate not in self.stopped:
                continue   # generated for the socket as re-opened after that application was closed
            out.append(("deliver", si))
        return out

    def finished(self) -> bool:
        return all(st == "done" for st in self.state) and all(
            i in self.stopped for i, a in enumerate(self.sc["apps"]) if a.get("stop")) and all(
            self.delivered[si] >= len(s["responses"]) for si, s in enumerate(self.sc["streams"]))

    # ---- transitions ------------------------------------------------------------------------------------------
    def apply(self, ch: tuple) -> None:
        self.events.append(ch)
        if ch[0] == "step":
            self._advance(ch[1])
        elif ch[0] == "open":
            self.opened.add(ch[1])
            sock, remote = self.sc["apps"][ch[1]]["open_socket"]
            try:
                hc.drive(self.ex.setup_epr_socket(sock, remote, sock), self.ex, None)
            except Exception as exc:
                raise Violation(f"opening EPR socket {sock} to node {remote} raised {type(exc).__name__}: {str(exc).splitlines()[0][:160]}")
            self.sockets_opened_mid_run = getattr(self, "sockets_opened_mid_run", 0) + 1
        elif ch[0] == "stop":
            self._stop(ch[1])
        else:
            self._deliver(ch[1])
        progress = ch[0] != "step" or self.state[ch[1]] != "blocked"
        for j in range(len(self.changed)):
            if ch[0] == "step" and j == ch[1] and self.state[j] == "blocked":
                self.changed[j] = False     # re-polling the same wait is pointless until something else happens
            elif progress:
                self.changed[j] = True

    def _advance(self, i: int) -> None:
        gen = self.gens[i]
        app = self.sc["apps"][i]["app"]
        self.changed[i] = False
        try:
            while True:
                try:
                    ev = next(gen)
                except StopIteration:
                    self.state[i] = "done"
                    return
                if ev is None:
                    continue
                if ev[0] == "wait":
                    # what a wait instruction waits for is fixed when the wait starts: registers of its operand are read then
                    # (other subroutines of the application may change them while this one is suspended)
                    if i not in self.wait_regs:
                        self.wait_regs[i] = dict(self.ex.registers_snapshot(app))
                    self.state[i] = "blocked"
                    return
                if ev[0] == "step":
                    m = ev[3]
                    self._poll()
                    if m in ("create_epr", "recv_epr"):
                        self._issue(app)
                    if m.startswith("wait_"):
                        self._check_wait(i, app, ev[2])
                    if m in VISIBLE:
                        self.state[i] = "ready"
                        return
        except Violation:
            raise
        except hc.StepLimit:
            raise Violation("step limit reached (livelock)")
        except Exception as exc:
            if self.sc["apps"][i].get("faults") and "refused by the network stack" in str(exc):
                self.state[i] = "done"      # the subroutine whose request the stack refused ends with that error, as it should
                self.refused_subroutines = getattr(self, "refused_subroutines", 0) + 1
                return
            raise Violation(f"executor raised {type(exc).__name__}: {str(exc).splitlines()[0][:200]}")

    def _stop(self, i: int) -> None:
        app = self.sc["apps"][i]["app"]
        # what the application holds at the moment it is closed is what the end-of-run oracle judges for it
        self.final_arrays[app] = {a: list(v) for a, v in self.ex._app_arrays[app]._arrays.items()}
        self.final_units[app] = list(self.ex._qubit_unit_modules[app])
        self.stopped.add(i)
        self.stops += 1
        for rs, purpose in (self.sc["apps"][i].get("remap_on_stop") or []):
            self.purpose_map[tuple(rs)] = purpose     # the network stack hands out a new purpose id when the socket is re-opened
        try:
            hc.drive(self.ex.stop_application(app), self.ex, None)
        except Exception as exc:
            raise Violation(f"stopping application {app} raised {type(exc).__name__}: {str(exc).splitlines()[0][:200]}")

    def _poll(self):
        if self.ex._pending_epr_responses:
            self.deferred_events += 1
            try:
                self.ex._handle_pending_epr_responses()
            except Violation:
                raise
            except Exception as exc:
                raise Violation(f"handling a pending response raised {type(exc).__name__}: {str(exc).splitlines()[0][:200]}")

    def _issue(self, app: int) -> None:
        reqs = self.app_requests[app]
        r = reqs[self.next_req[app]]
        self.next_req[app] += 1
        key = (r["remote"], r["socket"], r["role"])
        self.issued_pairs[key] = self.issued_pairs.get(key, 0) + r["number"]
        self.rlink.issue(Request(rid=(app, self.next_req[app] - 1), app=app, key=key, number=r["number"],
                                 result_addr=r["result_addr"], qubit_ids=r.get("qubit_ids"), tp=r["tp"]))

    def _deliver(self, si: int) -> None:
        from netqasm import qlink_compat as ql
        s = self.sc["streams"][si]
        key = tuple(s["key"])
        k = self.delivered[si]
        self.delivered[si] += 1
        spec = s["responses"][k]
        self.rid += 1
        rid = 100 + self.rid
        if self.sc.get("unnumbered"):
            # a link layer that does not number its responses: two responses of one stream can be equal field by field
            rid, k = 100 + si, 0
        direction = 0 if key[2] == "create" else 1
        purpose = self.purpose_map.get((key[0], key[1]), key[1])   # what the stack currently answers for this socket
        if spec["kind"] != "E" and self.issued_pairs.get(key, 0) < self.delivered[si]:
            self.early_arrivals += 1
        ex = self.ex
        if spec["kind"] == "E":
            # an error report of the link layer (e.g. a timeout of some other request): the executor reports it - once
            self.delivered[si] -= 0
            err = ql.LinkLayerErr(type=ql.ReturnType.ERR, create_id=rid, error_code=ql.ErrorCode.TIMEOUT, use_sequence_number_range=False,
                                  sequence_number_low=0, sequence_number_high=0, origin_node_id=key[0])
            self.errors_reported = getattr(self, "errors_reported", 0) + 1
            try:
                ex._handle_epr_response(err)
            except RuntimeError as exc:
                if "error from the network stack" not in str(exc):
                    raise Violation(f"delivering an error response raised {type(exc).__name__}: {str(exc).splitlines()[0][:160]}")
            except Exception as exc:
                raise Violation(f"delivering an error response raised {type(exc).__name__}: {str(exc).splitlines()[0][:160]}")
            return
        if spec["kind"] == "K":
            phys = ex._get_unused_physical_qubit()
            ex.inflight_phys.add(phys)
            fields = [0, rid, phys, direction, k, purpose, key[0], 1000 + rid, 2000 + rid, spec.get("bell", 0)]
            if self.sc.get("qlink10"):
                import qlink_interface as q1
                resp = q1.ResCreateAndKeep(create_id=rid, directionality_flag=direction, sequence_number=k, purpose_id=purpose,
                                           remote_node_id=key[0], goodness=1000 + rid,
                                           bell_state=q1.BellState[ql.BellState(spec.get("bell", 0)).name],
                                           logical_qubit_id=phys, time_of_goodness=2000 + rid)
            else:
                resp = ql.LinkLayerOKTypeK(type=ql.ReturnType.OK_K, create_id=rid, logical_qubit_id=phys, directionality_flag=direction,
                                           sequence_number=k, purpose_id=purpose, remote_node_id=key[0], goodness=1000 + rid,
                                           goodness_time=2000 + rid, bell_state=ql.BellState(spec.get("bell", 0)))
            self.rlink.arrive(key, {"rid": rid, "kind": "K", "phys": phys, "fields": fields})
        else:
            fields = [1, rid, spec.get("outcome", 0), spec.get("basis", 0), direction, k, purpose, key[0], 1000 + rid, spec.get("bell", 0)]
            if self.sc.get("qlink10"):
                import qlink_interface as q1
                resp = q1.ResMeasureDirectly(create_id=rid, directionality_flag=direction, sequence_number=k, purpose_id=purpose,
                                             remote_node_id=key[0], goodness=1000 + rid,
                                             bell_state=q1.BellState[ql.BellState(spec.get("bell", 0)).name],
                                             measurement_outcome=spec.get("outcome", 0),
                                             measurement_basis=q1.MeasurementBasis(spec.get("basis", 0)))
            else:
                resp = ql.LinkLayerOKTypeM(type=ql.ReturnType.OK_M, create_id=rid, measurement_outcome=spec.get("outcome", 0),
                                           measurement_basis=ql.Basis(spec.get("basis", 0)), directionality_flag=direction,
                                           sequence_number=k, purpose_id=purpose, remote_node_id=key[0], goodness=1000 + rid,
                                           bell_state=ql.BellState(spec.get("bell", 0)))
            self.rlink.arrive(key, {"rid": rid, "kind": "M", "phys": None, "fields": fields})
        try:
            ex._handle_epr_response(resp)
        except Violation:
            raise
        except Exception as exc:
            raise Violation(f"delivering response {rid} ({spec['kind']}, key {key}) raised {type(exc).__name__}: "
                            f"{str(exc).splitlines()[0][:200]}")
        if self.sc.get("qlink10"):
            # the link layer re-uses its response object for the next pair: what it handed over was handed over (the executor
            # may have had to put the response aside - it keeps what it was given at the time, not the object)
            for f_, v_ in (("sequence_number", 7777), ("logical_qubit_id", 77), ("measurement_outcome", 1 - getattr(resp, "measurement_outcome", 0)),
                           ("goodness", 7777), ("create_id", 7777)):
                if hasattr(resp, f_):
                    try:
                        setattr(resp, f_, v_)
                        self.reused_response_objects = getattr(self, "reused_response_objects", 0) + 1
                    except Exception:
                        pass

    # ---- wait monitor ---------------------------------------------------------------------------------------------
    def _check_wait(self, i: int, app: int, pc: int) -> None:
        ins = self.subs[i].instructions[pc]
        ex = self.ex
        arrs = ex._app_arrays[app]._arrays

        at_start = self.wait_regs.pop(i, None)

        def regval(r):
            if isinstance(r, int):
                return r
            if at_start is not None and str(r) in at_start:
                return at_start[str(r)]
            return ex._get_register(app, r)
        if ins.mnemonic in ("wait_all", "wait_any"):
            sl = ins.slice
            vals = arrs[sl.address.address][regval(sl.start):regval(sl.stop)]
            ok = all(v is not None for v in vals) if ins.mnemonic == "wait_all" else any(v is not None for v in vals)
        else:
            en = ins.entry
            ok = arrs[en.address.address][regval(en.index)] is not None
        if not ok:
            raise Violation(f"{ins} of app {app} resumed although the awaited entries are not all defined")

    # ---- end-of-run oracle ---------------------------------------------------------------------------------------------
    def final_check(self) -> None:
        ex = self.ex
        arrays, qmap, consumption = self.rlink.predict()
        # exactly-once, by the oldest outstanding request, pair k -> slice k
        got = sorted(self.consumed)
        req_of = {(a["app"], r["result_addr"]): None for a in self.sc["apps"] for r in self.app_requests[a["app"]]}
        want = []
        for rid, (app, ridx), k in consumption:
            r = self.app_requests[app][ridx]
            want.append((rid, r["result_addr"], app, k))
        if got != sorted(want):
            extra = [g for g in got if g not in want]
            missing = [w for w in want if w not in got]
            raise Violation(f"responses consumed differently from the matching rule: unexpected {extra[:3]} missing {missing[:3]} "
                            f"(response id, result array, app, pair index)")
        ids = [g[0] for g in got]
        if len(set(ids)) != len(ids) and not self.sc.get("unnumbered"):
            raise Violation(f"a response was consumed twice: {ids}")
        for (app, addr), vals in arrays.items():
            have = self.final_arrays[app].get(addr) if app in self.final_arrays else ex._app_arrays[app]._arrays.get(addr)
            if self.sc.get("array_prefix_only") and have is not None:
                # result arrays deliberately larger than number * 10: the rest must stay undefined
                if have[len(vals):] != [None] * (len(have) - len(vals)):
                    raise Violation(f"result array @{addr} of app {app} = {have}: entries beyond the request's {len(vals) // 10} pair(s) were written")
                have = have[:len(vals)]
            if have != vals:
                raise Violation(f"result array @{addr} of app {app} = {have} but the matching rule gives {vals}")
        freed = {tuple(x) for x in self.sc.get("freed", [])}
        for (app, v), phys in qmap.items():
            um = self.final_units[app] if app in self.final_units else ex._qubit_unit_modules[app]
            if (app, v) in freed:
                continue
            if um[v] != phys:
                raise Violation(f"virtual qubit {v} of app {app} is mapped to physical {um[v]}, its pair's response carried {phys}")
        for name, q in (("create", ex._epr_create_requests), ("recv", ex._epr_recv_requests)):
            for key, lst in q.items():
                if lst:
                    raise Violation(f"{len(lst)} {name} request(s) for {key} not retired although all their pairs were delivered")
        if ex._pending_epr_responses:
            raise Violation(f"{len(ex._pending_epr_responses)} response(s) still pending at the end")


def run_schedule(scenario: dict, chooser) -> Run:
    """chooser(depth, choices) -> index. Raises Violation."""
    run = Run(scenario)
    depth = 0
    try:
        while not run.finished():
            ch = run.choices()
            if not ch:
                raise_deadlock(run)
            idx = chooser(depth, ch)
            run.apply(ch[idx])
            depth += 1
            if depth > 400:
                raise Violation("schedule longer than 400 choices (livelock)")
        run.final_check()
    except Violation as v:
        v.run = run
        raise
    return run


def raise_deadlock(run: Run):
    v = Violation(f"deadlock: programs {run.state}, every planned response delivered {run.delivered}, nothing can make progress "
                  f"(a wait never resumes or a response was lost)")
    v.run = run
    raise v


def explore_all(scenario: dict, on_schedule, limit: Optional[int] = None, prefix_filter=None):
    """DFS over all schedules. on_schedule(events, run_or_violation). prefix_filter(first_choices) -> bool selects a shard."""
    stack: List[List[int]] = []
    count = 0
    while True:
        def chooser(depth, ch):
            if depth < len(stack):
                stack[depth][1] = len(ch)
                return stack[depth][0]
            stack.append([0, len(ch)])
            return 0
        run = None
        try:
            run = run_schedule(scenario, chooser)
            on_schedule([s[0] for s in stack], run, None)
        except Violation as v:
            on_schedule([s[0] for s in stack], getattr(v, "run", None), v)
        count += 1
        if limit is not None and count >= limit:
            return count, False
        while stack and stack[-1][0] + 1 >= stack[-1][1]:
            stack.pop()
        if not stack:
            return count, True
        stack[-1][0] += 1


def explore_random(scenario: dict, rng: random.Random, n: int, on_schedule):
    for _ in range(n):
        picks = []

        def chooser(depth, ch):
            i = rng.randrange(len(ch))
            picks.append(i)
            return i
        try:
            run = run_schedule(scenario, chooser)
            on_schedule(picks, run, None)
        except Violation as v:
            on_schedule(picks, getattr(v, "run", None), v)


def replay(scenario: dict, picks: List[int]) -> Run:
    def chooser(depth, ch):
        return picks[depth] if depth < len(picks) and picks[depth] < len(ch) else 0
    return run_schedule(scenario, chooser)
