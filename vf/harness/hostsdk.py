"""Drive the real SDK with an R-HOST program (vf/ref/hostlang.py AST)."""
from __future__ import annotations

from typing import Dict


class SdkDriver:
    def __init__(self, conn):
        self.conn = conn
        self.arrays: Dict[str, object] = {}
        self.futs: Dict[str, object] = {}
        self.regs: Dict[str, object] = {}
        self.vars: Dict[str, object] = {}      # loop variables: Register (ctx loops) or RegFuture (cb loops, until)
        self.qubits: Dict[str, object] = {}
        self.qid: Dict[str, int] = {}
        self.entry_handles: Dict[tuple, object] = {}   # one long-lived Future per (array, constant index)
        self.created_in_segment: Dict[str, int] = {}
        self.segment = 0
        self.on_top = None
        self.on_nested = None
        self.seg_regs = {}           # segment -> registers that were handed to a host handle in it
        self.tmpl_mode = "concrete"
        self.tmpl_values = {}

    # ---- operands ------------------------------------------------------------------------------
    def var_register(self, name):
        from netqasm.sdk.futures import RegFuture
        v = self.vars[name]
        return v.reg if isinstance(v, RegFuture) else v

    def var_regfuture(self, name):
        from netqasm.sdk.futures import RegFuture
        v = self.vars[name]
        return v if isinstance(v, RegFuture) else RegFuture(self.conn, reg=v)

    def entry(self, array, idx):
        arr = self.arrays[array]
        if isinstance(idx, int):
            key = (array, idx)
            if key not in self.entry_handles:
                self.entry_handles[key] = arr.get_future_index(idx)
            return self.entry_handles[key]
        if "reg" in idx:
            # one long-lived handle per (array, register handle): created once, used again after the register handle was
            # measured into again
            key = (array, idx["reg"])
            handles = self.__dict__.setdefault("reg_entry_handles", {})
            if key not in handles:
                handles[key] = arr.get_future_index(self.regs[idx["reg"]])
            return handles[key]
        if "at" in idx:
            from netqasm.sdk.futures import Future
            inner = self.entry(idx["at"]["array"], idx["at"]["idx"])
            return Future(connection=self.conn, address=arr.address, index=inner)
        return arr.get_future_index(self.vars[idx["var"]])

    def future_of(self, v):
        """A BaseFuture object for a value (used as add target / condition operand)."""
        k = v["kind"]
        if k == "entry":
            return self.entry(v["array"], v["idx"])
        if k == "fut":
            return self.futs[v["name"]]
        if k == "reg":
            return self.regs[v["name"]]
        if k == "var":
            return self.var_regfuture(v["name"])
        raise ValueError(k)

    def cond_operand(self, v):
        return v if isinstance(v, int) else self.future_of(v)

    def add_operand(self, v):
        if isinstance(v, int):
            return v
        k = v["kind"]
        if k == "reg":
            # the handle itself (what an application passes) or its register - both are documented operand types of add()
            self._n_reg_operands = getattr(self, "_n_reg_operands", 0) + 1
            return self.regs[v["name"]] if self._n_reg_operands % 2 else self.regs[v["name"]].reg
        if k == "var":
            return self.var_register(v["name"])
        return self.future_of(v)

    # ---- statements ----------------------------------------------------------------------------
    def block(self, stmts):
        for st in stmts:
            if getattr(self, "before_nested", None) is not None:
                self.before_nested(st)
            if self.on_nested is not None:
                self.on_nested(self, st)      # a completed operation inside the body of an enclosing one
            else:
                self.stmt(st)

    def top_block(self, stmts):
        """Top-level statements of a flush segment: each is one completed SDK operation."""
        for st in stmts:
            if getattr(self, "before_top", None) is not None:
                self.before_top(st)
            if self.on_top is not None:
                self.on_top(self, st)
            else:
                self.stmt(st)

    def stmt(self, st):
        from netqasm.sdk.constraint import ValueAtMostConstraint
        from netqasm.sdk.qubit import Qubit
        conn = self.conn
        op = st["op"]
        if op == "array":
            if "init" in st:
                buf = list(st["init"])
                self.arrays[st["name"]] = conn.new_array(len(st["init"]), init_values=buf)
                # every other time the host re-uses its buffer for something else before the flush: the array was given its
                # initial values when it was created
                self._bufs = getattr(self, "_bufs", 0) + 1
                if self._bufs % 2 == 0:
                    buf[:] = [(7 if x is None else x + 7) for x in buf]
            else:
                self.arrays[st["name"]] = conn.new_array(st["len"])
            self.created_in_segment[st["name"]] = self.segment
        elif op == "reg":
            self.regs[st["name"]] = conn.builder.new_register(init_value=st["init"])
            self.created_in_segment[st["name"]] = self.segment
            self.seg_regs.setdefault(self.segment, set()).add(str(self.regs[st["name"]].reg))
        elif op == "qalloc":
            q = Qubit(conn)
            self.qubits[st["q"]] = q
            self.qid[st["q"]] = q.qubit_id
        elif op == "gate":
            getattr(self.qubits[st["q"]], st["g"].upper())()
        elif op == "rot":
            n = st["n"]
            if isinstance(n, dict):
                if self.tmpl_mode == "template":
                    from netqasm.lang.operand import Template
                    n = Template(n["tmpl"])
                else:
                    n = self.tmpl_values[n["tmpl"]]
            d = st["d"]
            if isinstance(d, dict):      # the builder also takes a template for the denominator
                if self.tmpl_mode == "template":
                    from netqasm.lang.operand import Template
                    d = Template(d["tmpl"])
                else:
                    d = self.tmpl_values[d["tmpl"]]
            getattr(self.qubits[st["q"]], "rot_" + st["axis"].upper())(n=n, d=d)
        elif op == "cnot":
            self.qubits[st["c"]].cnot(self.qubits[st["t"]])
        elif op == "meas":
            q = self.qubits[st["q"]]
            t = st["to"]
            inplace = bool(st.get("inplace"))
            if t["kind"] == "new":
                f = q.measure(inplace=inplace)
                self.futs[t["name"]] = f
                self.created_in_segment[t["name"]] = self.segment
                # expose the implicit one-entry array under the same name
                self.arrays[t["name"]] = _ArrayView(conn, f._address, 1)
            elif t["kind"] == "reg" and t.get("reuse"):
                q.measure(future=self.regs[t["name"]], inplace=inplace)   # measure again into an existing RegFuture handle
                self.created_in_segment[t["name"]] = self.segment
                self.seg_regs.setdefault(self.segment, set()).add(str(self.regs[t["name"]].reg))
            elif t["kind"] == "reg":
                f = q.measure(inplace=inplace, store_array=False)
                self.regs[t["name"]] = f
                self.created_in_segment[t["name"]] = self.segment
                self.seg_regs.setdefault(self.segment, set()).add(str(f.reg))
            else:
                q.measure(future=self.entry(t["array"], t["idx"]), inplace=inplace)
        elif op == "add":
            tgt = self.future_of(st["target"])
            tgt.add(self.add_operand(st["other"]), mod=st.get("mod"))
            if st["target"].get("kind") == "reg" and getattr(tgt, "reg", None) is not None:
                # a register handle whose value changes in this segment: the new value is owed to the host at the end of it
                self.seg_regs.setdefault(self.segment, set()).add(str(tgt.reg))
        elif op == "if":
            cond = st["cond"]
            a = self.cond_operand(st["a"])
            b = self.cond_operand(st["b"]) if st.get("b") is not None else None
            if st["form"] == "ctx":
                ctx = getattr(a, "if_" + cond)() if cond in ("ez", "nz") else getattr(a, "if_" + cond)(b)
                with ctx:
                    self.block(st["body"])
            else:
                def body(_conn):
                    self.block(st["body"])
                if cond in ("ez", "nz"):
                    getattr(conn, "if_" + cond)(a, body)
                else:
                    getattr(conn, "if_" + cond)(a, b, body)
        elif op == "loop":
            from netqasm.lang.parsing import parse_register
            reg = st.get("reg")
            if st.get("stop_from") is not None:
                fut = self.entry(st["stop_from"]["array"], st["stop_from"]["idx"])
                int(fut)                      # the host has read the value: the handle now is that number
                st = dict(st, stop=fut)
            if st["form"] == "ctx":
                # (an explicit loop register is given as a Register object or, every other time, by its name)
                self._named_loops = getattr(self, "_named_loops", 0) + 1
                with conn.loop(st["stop"], st["start"], st["step"],
                               (reg if self._named_loops % 2 else parse_register(reg)) if reg else None) as i:
                    self.vars[st["var"]] = i
                    self.block(st["body"])
            else:
                def lbody(_conn, i):
                    self.vars[st["var"]] = i
                    self.block(st["body"])
                conn.loop_body(lbody, st["stop"], st["start"], st["step"], reg)
        elif op == "foreach":
            arr = self.arrays[st["array"]]
            # every other loop over an array re-enters the context object of an earlier loop over it (a host that keeps
            # `each = arr.foreach()` around), unless that one is still open around this one
            kept = self.__dict__.setdefault("kept_contexts", {})
            active = self.__dict__.setdefault("active_contexts", set())
            self._n_foreach = getattr(self, "_n_foreach", 0) + 1
            ckey = (st["array"], bool(st.get("idxvar")))
            cm = kept.get(ckey) if self._n_foreach % 2 == 0 else None
            if cm is None or id(cm) in active:
                cm = arr.enumerate() if st.get("idxvar") else arr.foreach()
                kept[ckey] = cm
            else:
                self.reentered_contexts = getattr(self, "reentered_contexts", 0) + 1
            active.add(id(cm))
            try:
                if st.get("idxvar"):
                    with cm as (i, v):
                        self.vars[st["idxvar"]] = i
                        self.futs[st["var"]] = v
                        self.block(st["body"])
                else:
                    with cm as v:
                        self.futs[st["var"]] = v
                        self.block(st["body"])
            finally:
                active.discard(id(cm))
        elif op == "until":
            with conn.loop_until(st["max"]) as loop:
                self.vars[st["var"]] = loop.loop_register
                self.block(st["body"])
                loop.set_exit_condition(ValueAtMostConstraint(self.future_of(st["exit"]["val"]), st["exit"]["atmost"]))
                if st.get("cleanup"):
                    def cleanup(_conn, _stmts=st["cleanup"]):
                        self.block(_stmts)
                    loop.set_cleanup_code(cleanup)
        else:
            raise ValueError(op)


class _ArrayView:
    """Read-only view of an SDK-allocated array whose Array object the SDK does not hand out (measure())."""

    def __init__(self, conn, address, length):
        self._conn = conn
        self.address = address
        self._length = length

    def __len__(self):
        return self._length

    def __getitem__(self, index):
        return self._conn.shared_memory.get_array_part(address=self.address, index=index)

    def get_future_index(self, index):
        from netqasm.sdk.futures import Future
        return Future(connection=self._conn, address=self.address, index=index)
