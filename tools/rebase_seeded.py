#!/usr/bin/env python3
"""Re-base a seeded patch onto /repo's current HEAD after later fix: commits moved its context (patch --fuzz), re-confirm it
(demo passes clean / fails with patch, suite 171) and rewrite patch.diff.  usage: tools/rebase_seeded.py seeded/C07-1 ..."""
import glob, json, os, shutil, subprocess, sys, tempfile
for d in sys.argv[1:]:
    d = d.rstrip("/")
    S = tempfile.mkdtemp(prefix="vf-rebase-")
    try:
        subprocess.run(f"git -C /repo archive HEAD | tar -x -C {S}", shell=True, check=True)
        subprocess.run("git init -q . && git add -A >/dev/null && git -c user.email=a@b -c user.name=x commit -qm base", shell=True, cwd=S, check=True)
        p = subprocess.run(["patch", "-p1", "--fuzz=3", "--no-backup-if-mismatch", "-i", os.path.abspath(os.path.join(d, "patch.diff"))],
                           cwd=S, capture_output=True, text=True)
        rej = glob.glob(S + "/**/*.rej", recursive=True)
        if p.returncode != 0 or rej:
            print(d, "NEEDS-MANUAL", p.stdout.strip().splitlines()[-3:], [r.replace(S, "") for r in rej])
            continue
        for f in glob.glob(S + "/**/*.orig", recursive=True):
            os.remove(f)
        diff = subprocess.run(["git", "diff"], cwd=S, capture_output=True, text=True).stdout
        demo = next((os.path.join(d, f) for f in ("demo.py", "test_demo.py") if os.path.exists(os.path.join(d, f))), None)
        env = dict(os.environ, PYTHONPATH=S, PYTHONHASHSEED="0")

        def run_demo():
            cmd = ["/venv/bin/python", "-m", "pytest", "-q", "-p", "no:cacheprovider", os.path.abspath(demo)] if demo.endswith("test_demo.py") else ["/venv/bin/python", os.path.abspath(demo)]
            try:
                return subprocess.run(cmd, cwd=S, env=env, capture_output=True, text=True, timeout=600).returncode
            except subprocess.TimeoutExpired:
                return -9
        mutated = run_demo()
        t = subprocess.run(["/venv/bin/python", "-m", "pytest", "-q", "-p", "no:cacheprovider", "--ignore=tests/test_external"],
                           cwd=S, env=env, capture_output=True, text=True, timeout=900)
        tests = t.stdout.strip().splitlines()[-1] if t.stdout.strip() else "?"
        subprocess.run(["git", "checkout", "-q", "--", "."], cwd=S)
        clean = run_demo()
        ok = clean == 0 and mutated != 0 and "171 passed" in tests
        print(d, "OK" if ok else "REJECT", f"clean rc={clean} mutated rc={mutated} tests: {tests}")
        if ok:
            open(os.path.join(d, "patch.diff"), "w").write(diff)
            meta = json.load(open(os.path.join(d, "meta.json")))
            head = subprocess.run(["git", "-C", "/repo", "log", "--format=%h", "-1"], capture_output=True, text=True).stdout.strip()
            meta["confirmed"].update({"rebased_onto": head, "demo_on_unmodified_rc": clean, "demo_with_patch_rc": mutated, "repo_tests_with_patch": tests})
            json.dump(meta, open(os.path.join(d, "meta.json"), "w"), indent=1)
    finally:
        shutil.rmtree(S, ignore_errors=True)
