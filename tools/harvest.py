#!/usr/bin/env python3
"""Confirm a sub-agent mutant in a scratch copy and keep it under /verif/seeded/<id>/.
usage: tools/harvest.py /tmp/mut/C04/out/1"""
import json, os, re, shutil, subprocess, sys, tempfile
src = sys.argv[1].rstrip("/")
pid = re.findall(r"C\d\d", src)[0]
k = os.path.basename(src)
if len(sys.argv) > 2:
    k = str(int(k) + int(sys.argv[2]))   # offset for later waves
name = f"{pid}-{k}"
patch = os.path.join(src, "patch.diff")
demo = next((os.path.join(src, f) for f in ("demo.py", "test_demo.py") if os.path.exists(os.path.join(src, f))), None)
if not (os.path.exists(patch) and demo):
    print(name, "INCOMPLETE"); sys.exit(1)
S = tempfile.mkdtemp(prefix="vf-harvest-")
try:
    subprocess.run(f"git -C /repo archive HEAD | tar -x -C {S}", shell=True, check=True)
    env = dict(os.environ, PYTHONPATH=S, PYTHONHASHSEED="0")
    def run_demo():
        cmd = ["/venv/bin/python", "-m", "pytest", "-q", "-p", "no:cacheprovider", demo] if demo.endswith("test_demo.py") else ["/venv/bin/python", demo]
        try:
            return subprocess.run(cmd, cwd=S, env=env, capture_output=True, text=True, timeout=600).returncode
        except subprocess.TimeoutExpired:
            return -9
    clean = run_demo()
    ap = subprocess.run(["git", "apply", "--unsafe-paths", "--directory=" + S, patch], cwd="/", capture_output=True, text=True)
    if ap.returncode != 0:
        ap = subprocess.run(["patch", "-p1", "-i", patch], cwd=S, capture_output=True, text=True)
    if ap.returncode != 0:
        print(name, "PATCH-FAILED", ap.stderr[:300]); sys.exit(1)
    t = subprocess.run(["/venv/bin/python", "-m", "pytest", "-q", "-p", "no:cacheprovider", "--ignore=tests/test_external"],
                       cwd=S, env=env, capture_output=True, text=True, timeout=900)
    tests = t.stdout.strip().splitlines()[-1] if t.stdout.strip() else "?"
    mutated = run_demo()
    files = subprocess.run(["grep", "-E", r"^\+\+\+ b/", patch], capture_output=True, text=True).stdout.split()
    ok = clean == 0 and mutated != 0 and "171 passed" in tests
    print(name, "OK" if ok else "REJECT", f"demo clean rc={clean} mutated rc={mutated}; tests: {tests}")
    if ok:
        dst = os.path.join("/verif/seeded", name)
        os.makedirs(dst, exist_ok=True)
        shutil.copy(patch, os.path.join(dst, "patch.diff"))
        shutil.copy(demo, os.path.join(dst, os.path.basename(demo)))
        notes = open(os.path.join(src, "notes.md")).read() if os.path.exists(os.path.join(src, "notes.md")) else ""
        open(os.path.join(dst, "notes.md"), "w").write(notes)
        meta = {"id": name, "property": pid,
                "touches": sorted({f.replace("b/", "", 1) for f in files if f.startswith("b/")}),
                "needs_to_manifest": notes.strip().splitlines()[:12],
                "origin": "independent sub-agent given only the property text and a scratch worktree",
                "confirmed": {"how": "scratch copy of /repo HEAD (git archive) under /tmp, PYTHONPATH pointing at it",
                              "demo_on_unmodified_rc": clean, "demo_with_patch_rc": mutated, "repo_tests_with_patch": tests}}
        json.dump(meta, open(os.path.join(dst, "meta.json"), "w"), indent=1)
finally:
    shutil.rmtree(S, ignore_errors=True)
