#!/bin/bash
# Run a command against a scratch copy of /repo's last COMMIT (git archive HEAD), ignoring uncommitted working-tree edits:
# used to show that a check fires on the tree before a repair that is still uncommitted.   tools/at_head.sh ./check C18
S=/tmp/vf-head-$$
rm -rf "$S"; mkdir -p "$S"
git -C /repo archive HEAD | tar -x -C "$S"
PYTHONPATH="$S" "$@"
rc=$?
rm -rf "$S"
exit $rc
