#!/usr/bin/env python3
"""Prepare a wave of sub-agent tasks that seed property-breaking changes into scratch worktrees.
usage: tools/mk_wave.py /tmp/mut3 [n_changes]
Each sub-agent gets only /tmp/mutN/<id>/PROMPT.md (property text + its own worktree), nothing from /verif."""
import json, os, subprocess, sys
root = sys.argv[1]
n = int(sys.argv[2]) if len(sys.argv) > 2 else 2
style = sys.argv[3] if len(sys.argv) > 3 else "any"
EXTRA = {"any": "", "logic": """5. This time do NOT use caching, memoisation, object sharing or any other stale-state mechanism (those have been
   studied already). Make **logic changes**: a wrong comparison or boundary (< vs <=, off by one), a wrong sign, operand
   order, default value, unit or conversion, a swapped pair of cases in a dispatch, a condition that is subtly weaker or
   stronger, an early return that skips a step, a changed evaluation order of two steps - placed in a **rarely
   exercised feature, code path or operand class** that still lies inside the property's "quantified over" domain, so
   that mainstream inputs behave identically. Prefer paths that need a specific *combination* of options or values."""}
EXTRA["entry"] = """5. This time make the change in an **alternative entry point, option or value class** of the feature rather than in its
   main path: an older / deprecated API that is still exported, a keyword argument with a non-default value, the callback
   form of something that also has a context-manager form (or the other way round), an alternate constructor, a dunder
   method (`__eq__`, `__hash__`, `__len__`, `__iter__`, `__str__`, `__repr__`, `__bytes__`, `__int__`), a property
   setter, behaviour under a non-default configuration object (hardware config, log config, flavour, timeout, block
   flag), or a value class the main path rarely meets (zero, negative, maximal, empty, a numpy or bool value, two equal
   operands, the same object used twice). The default path with ordinary values must behave exactly as before. Do NOT
   use caching or stale state. The change must still lie inside the property's "quantified over" domain."""
EXTRA["history"] = """5. This time the change must be **history-dependent**: on a fresh object in a fresh process, on first use, everything
   behaves exactly as before; the misbehaviour needs a particular **earlier event** inside the property's domain. Examples:
   the second (or n-th) use of the same object (connection, builder, subroutine, instruction, socket, executor, controller,
   parser / transpiler / deserializer instance, flavour); state left behind by an operation that **failed or raised**
   (a refused input, a faulted subroutine, a timeout) and was then followed by a valid one; close / reopen, stop /
   re-register, flush boundaries; an operation of **another** application, thread, node or flavour in the same process
   in between; two calls that should commute but no longer do; arguments mutated in place and then reused by the
   caller; a mutable default argument or class-level attribute that accumulates; an iterator or list consumed once;
   a counter or id that is not reset (or is reset when it should not be). It does not have to be a cache. The demo should
   show the same call giving the right result the first time and the wrong one later (or after the earlier event)."""
EXTRA["history2"] = EXTRA["history"] + """
   The obvious histories have been studied already (second use of one object, a refused call followed by a valid one, stop and
   re-register, a cache keyed too coarsely). Prefer the less obvious ones: **long-run accumulation** (the 17th, 257th or
   65537th item: ids, labels, addresses, registers, counters that wrap or run out), **process-wide switches and reset
   functions** (a global setting changed between two steps, a reset function that forgets one table), **two objects that
   share something they should not** (a default argument, a class attribute, a list handed out by a getter, an object stored
   by reference that the caller edits later), **ordering between two different APIs** (A then B differs from B then A although
   they are independent), **interleaving of two applications / connections / threads** in one process, and **what survives a
   close** (of a connection, a socket, an application) into the next one with the same name or id."""
EXTRA["combo"] = """5. This time do NOT use caching, memoisation, object sharing or any other stale-state mechanism, and do not depend on an
   earlier event. Make a plain **logic change** (boundary, sign, operand order, unit, default, swapped dispatch case, weaker /
   stronger condition, early return, evaluation order) that only shows for **a combination or a scale that testers rarely
   draw**, still inside the property's "quantified over" domain. Good places: (a) **scale**: the 17th register / 6th qubit /
   257th label / 1025th instruction / 65537th array entry, many pairs, many applications, deep nesting, long programs or
   arrays, values at or just past an internal block or chunk size; (b) a **pair of options that are each tested alone but
   rarely together** (e.g. an info-returning entry point *and* sequential mode, a debug listing *and* a branch, the hardware
   setting *and* a template, a non-default socket id *and* the context form, two applications *and* the top slot of a unit
   module); (c) the **extreme member of a small enumeration** (application id 0 or 65535, the last register, the highest
   virtual qubit, the last Bell state, the last enum member, an empty list, exactly one element); (d) the **less used of two
   symmetric roles or directions** (receiver vs creator, remote vs local, decode vs encode, second operand vs first,
   count-down vs count-up). Ordinary sizes and single options must behave exactly as before."""
extra = EXTRA[style]
props = [json.loads(l) for l in open('/verif/properties.jsonl')]
only = [x for x in os.environ.get("WAVE_ONLY", "").split(",") if x]
for p in props:
    pid = p['id']
    if only and pid not in only:
        continue
    d = f'{root}/{pid}'
    os.makedirs(d + '/out', exist_ok=True)
    if not os.path.exists(d + '/wt'):
        subprocess.run(['git', '-C', '/repo', 'worktree', 'add', '-q', '--detach', d + '/wt', 'HEAD'], check=True)
    anchors = p['anchors']
    ks = ", ".join(str(i) for i in range(1, n + 1))
    txt = f"""# Task: seed a realistic, hard-to-notice regression into a scratch copy of QuTech-Delft/netqasm

You work ONLY inside `{d}` . Your scratch git worktree of the repository is `{d}/wt`
(Python package `netqasm`). Never read or write anything under `/repo` or `/verif`, and do not look
for other copies of this task elsewhere on the machine. There is no network. Do NOT use `git stash`
(the stash is shared between worktrees); use `git apply -R` / `git checkout -- .` to restore.

Run Python as `cd {d}/wt && PYTHONPATH={d}/wt /venv/bin/python ...` (the PYTHONPATH makes the
worktree's code win over the installed copy; check with `python -c 'import netqasm; print(netqasm.__file__)'`).
The existing test suite is run with
`cd {d}/wt && PYTHONPATH={d}/wt /venv/bin/python -m pytest -q -p no:cacheprovider --ignore=tests/test_external`
and reports `171 passed` on the unmodified worktree (about 8 s).

## The property (this is all you are told about what should hold)

**{p['id']} — {p['title']}**

Statement: {p['statement']}

Quantified over: {p['quantifier']['text']}

Why the existing tests cannot settle it: {p['why_tests_cant']}
(Remarks in that text about current defects may be outdated: judge the unmodified worktree by running it.)

Code it is anchored in: {', '.join(anchors['files'])}
Mechanisms: {'; '.join(m['name'] + ' (' + m['where'] + ')' for m in anchors['mechanism'])}

## What to produce

Produce **{n} different, independent** source changes to the netqasm package (each on its own, starting
from the unmodified worktree), each of which

1. **breaks the property above** (makes netqasm really misbehave with respect to the statement, for inputs /
   histories inside the "quantified over" domain),
2. still imports/compiles and keeps the existing test suite at `171 passed` (run it!),
3. looks like a plausible regression a developer could introduce during a refactor, a clean-up, a performance
   optimisation (caching, memoisation, early exit, batching), or a feature addition — not an artificial trigger
   such as `if x == 12345`,
4. is **as hard to notice as you can make it**. Assume a tester who already compares netqasm against an
   independent reference model on many thousands of random small programs / histories and on every single
   instruction with boundary operand values. Choose changes that such testing would plausibly still miss:
   behaviour that depends on **state accumulated over a long run** (the 17th allocation, the second subroutine of
   the same app after another app ran, counters that wrap, caches keyed too coarsely), on **interactions between
   two features** that are rarely combined (two flavours in one process, two application ids, nested control
   flow plus arrays plus a flush, callbacks plus re-opened sockets, templates plus loops), on **value classes**
   (negative, zero-length, maximal, equal operands, aliasing of two operands), or needing **two cooperating
   sites** that each look fine alone; or a change in a **less obvious file/function** than the first place one
   would look (a helper, a base class, a dataclass default, an `__eq__`/`__hash__`, a property setter).
   Avoid changes that make most programs fail. The {n} changes must differ in mechanism and location.
{extra}

For each change k = {ks} write into `{d}/out/<k>/`:

* `patch.diff` — output of `git diff` in the worktree (must apply to the unmodified worktree with `git apply`),
  touching only files under `netqasm/`;
* `demo.py` — a small self-contained program that **fails (non-zero exit) with the change applied and passes
  (exit 0) on the unmodified worktree**, run as
  `cd {d}/wt && PYTHONPATH={d}/wt /venv/bin/python {d}/out/<k>/demo.py`. It may only use what is installed in
  `/venv` (no external simulators, no network). It may subclass or drive netqasm's own classes (the base
  Executor / QNodeController, a connection subclass that hands the serialized messages to a controller, a fake
  network stack, threads) as needed;
* `notes.md` — 5-15 lines: what the change does, why it violates the property, exactly what is needed for it
  to manifest and how rare that is, and the commands you ran (tests with the change: result; demo with and
  without the change: result).

The demonstration must pass on the **unmodified** worktree; if it fails there, pick another manifestation.
Leave the worktree clean at the end (`git -C {d}/wt checkout -- .`; do not commit). Before you finish, re-verify for
each k from a clean worktree: apply patch → tests 171 passed → demo fails; un-apply → demo passes. Your final
message should describe the changes in two lines each.
"""
    open(d + '/PROMPT.md', 'w').write(txt)
print('ok', root)
