#!/usr/bin/env python3
"""Run the property's own quick check (seed from VERIF_SEED, default 0) against one seeded change and record the result in its
meta.json ("detected_by"); if the own check misses it, try the checks named in --also=C08,C12.
usage: tools/record_detection.py seeded/C07-7 [--also=C08,C13]"""
import json, os, subprocess, sys
d = sys.argv[1].rstrip("/")
also = [a.split("=", 1)[1].split(",") for a in sys.argv[2:] if a.startswith("--also=")]
also = also[0] if also else []
meta_p = os.path.join(d, "meta.json")
meta = json.load(open(meta_p))
seed = int(os.environ.get("VERIF_SEED", "0"))
out = None
for pid in [meta["property"]] + [a for a in also if a != meta["property"]]:
    p = subprocess.run(["/verif/tools/with_patch.sh", os.path.join(d, "patch.diff"), "--", "/verif/check", pid, "--tier", "quick"],
                       capture_output=True, text=True)
    wit = [l.strip() for l in p.stdout.splitlines() if l.strip().startswith("witness")]
    verdict = {0: "MISSED", 1: "caught", 2: "inconclusive", 99: "patch-failed"}.get(p.returncode, f"rc{p.returncode}")
    if verdict == "caught" or out is None:
        out = {"check": pid, "tier": "quick", "seed": seed, "verdict": verdict, "witness": (wit[0][9:209] if wit else "")}
    if verdict == "caught":
        break
meta["detected_by"] = out
json.dump(meta, open(meta_p, "w"), indent=1)
print(d, out["check"], out["verdict"], out["witness"][:100])
