#!/usr/bin/env python3
"""Port a seeded patch onto /repo HEAD with a 3-way merge, resolving each conflict by a given policy.
usage: tools/port3.py seeded/C01-21 t [o ...]     (t = take the seeded side, o = keep the repaired tree's side, per conflict;
       'show' prints the conflicts). Needs a scratch clone at /tmp/r3 (git clone /repo /tmp/r3)."""
import os, re, subprocess, sys
d = sys.argv[1].rstrip("/")
pol = sys.argv[2:]
R = "/tmp/r3"
def sh(*a, **k):
    return subprocess.run(a, cwd=R, capture_output=True, text=True, **k)
sh("git", "fetch", "-q", "/repo", "HEAD"); sh("git", "reset", "-q", "--hard", "FETCH_HEAD")
sh("git", "apply", "--3way", os.path.abspath(os.path.join(d, "patch.diff")))
files = sh("git", "diff", "--name-only", "--diff-filter=U").stdout.split()
k = 0
for f in files:
    txt = open(os.path.join(R, f)).read()
    out, pos = [], 0
    for m in re.finditer(r"<<<<<<< ours\n(.*?)=======\n(.*?)>>>>>>> theirs\n", txt, re.S):
        out.append(txt[pos:m.start()])
        if pol == ["show"] or k >= len(pol):
            print(f"--- conflict {k} in {f}\nOURS:\n{m.group(1)}THEIRS:\n{m.group(2)}")
            out.append(m.group(0))
        else:
            out.append(m.group(2) if pol[k] == "t" else m.group(1) if pol[k] == "o" else open(pol[k]).read())
        k += 1
        pos = m.end()
    out.append(txt[pos:])
    open(os.path.join(R, f), "w").write("".join(out))
if pol == ["show"] or k > len(pol):
    sys.exit(1)
sh("git", "reset", "-q")
diff = sh("git", "diff", "HEAD").stdout
open("/tmp/port3.diff", "w").write(diff)
demo = next(os.path.abspath(os.path.join(d, f)) for f in ("demo.py", "test_demo.py") if os.path.exists(os.path.join(d, f)))
env = dict(os.environ, PYTHONPATH=R, PYTHONHASHSEED="0")
def run_demo():
    cmd = ["/venv/bin/python", "-m", "pytest", "-q", "-p", "no:cacheprovider", demo] if demo.endswith("test_demo.py") else ["/venv/bin/python", demo]
    try:
        return subprocess.run(cmd, cwd=R, env=env, capture_output=True, text=True, timeout=600).returncode
    except subprocess.TimeoutExpired:
        return -9
mut = run_demo()
t = subprocess.run(["/venv/bin/python", "-m", "pytest", "-q", "-p", "no:cacheprovider", "--ignore=tests/test_external"], cwd=R, env=env, capture_output=True, text=True)
tests = t.stdout.strip().splitlines()[-1] if t.stdout.strip() else "?"
sh("git", "checkout", "-q", "--", ".")
clean = run_demo()
ok = clean == 0 and mut != 0 and "171 passed" in tests
print(d, "OK" if ok else "REJECT", f"clean rc={clean} mutated rc={mut} tests: {tests}")
if ok:
    open(os.path.join(d, "patch.diff"), "w").write(diff)
