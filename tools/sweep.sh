#!/bin/bash
# tools/sweep.sh <tier> <seed>...   : run every claimed check for each seed, report non-zero exits (silence sweep)
cd "$(dirname "$0")/.."
tier=$1; shift
fails=0
for seed in "$@"; do
  for c in $(cat tools/claimed.txt); do
    out=$(VERIF_SEED=$seed ./check $c --tier $tier 2>&1); rc=$?
    if [ $rc -ne 0 ]; then
      fails=$((fails+1))
      echo "=== $c seed=$seed tier=$tier rc=$rc"
      echo "$out" | grep -v "^KNOWN" | tail -6 | cut -c1-600
      mkdir -p .work/sweep_replays; cp -r replays/$c-* .work/sweep_replays/ 2>/dev/null
    else
      echo "ok $c seed=$seed $(echo "$out" | grep -o 'wall=[0-9.]*s')"
    fi
  done
done
echo "SWEEP DONE tier=$tier seeds=$* failures=$fails"
