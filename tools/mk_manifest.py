#!/usr/bin/env python3
"""Regenerate MANIFEST.json from the per-property table below (claimed = a module vf/checks/cNN.py exists
and is listed in CLAIMED)."""
import json, os
ROOT = os.path.dirname(os.path.dirname(os.path.abspath(__file__)))
props = [json.loads(l) for l in open(os.path.join(ROOT, "properties.jsonl"))]

META = {
 "C01": ("exploration", "runtime monitoring: round-trip oracle over generated subroutines + icontract postcondition on Flavour.__init__",
         "Every flavour x class x field position is swept over all register/immediate values and boundary 32-bit values through the repo's own bytes()/deserialize(); tables are checked by a postcondition on the real constructor; decode and encode are repeated after the results were edited in place by a consumer. Sampled, not proved: 32-bit operand values and sequences are sampled.",
         "frozen field-layout table vf/ref/isa.py; classes discovered from the working tree", "3 C01"),
 "C02": ("exploration", "runtime monitoring: differential against a frozen struct-based reference encoder, both directions",
         "Byte-for-byte comparison with an independent encoder for every class x field x bit (walking ones, pairwise-distinct operands) and random subroutines; catches consistent encoder+decoder changes that every round-trip test misses; re-encoding after in-place updates and concurrent encoding by four application threads are compared with the reference too.",
         "the frozen table in vf/ref/isa.py is the published instruction table", "3 C02"),
 "C03": ("exploration", "runtime monitoring: structural alignment monitor + differential execution (R-INTERP on source vs assembled vs real Executor)",
         "Random source programs (labels anywhere, literals everywhere, macros, brackets) incl. zero-padded numerals and IR grown in place, are assembled by the real assembler and run on the real executor; compared with a direct interpretation of the source.",
         "R-INTERP reference interpreter; programs up to 40 statements, step bound", "3 C03"),
 "C04": ("exploration", "runtime monitoring: lock-step differential of the real Executor against the reference interpreter R-INTERP",
         "Random and reference-guided instruction-level programs and multi-subroutine histories run on the real base Executor; PC trace, all registers, arrays, unit module, publications, the host copy of returned arrays between returns, fault line and no-partial-effect compared with an independent interpreter.",
         "R-INTERP is trusted; documented domain restrictions are discarded, not judged", "3 C04"),
 "C05": ("exploration", "runtime monitoring: differential of the SDK->bytes->controller pipeline against direct evaluation of the host program (R-HOST)",
         "Random nested host programs with every flush placement run through the full pipeline with scripted measurement outcomes; gate trace, outcome placement, final memory and every host handle after every flush compared with direct evaluation; register handles measured again across flushes.",
         "R-HOST evaluator; state-vector backend at the executor's extension points", "3 C05"),
 "C06": ("exploration", "runtime monitoring: twin-connection differential (precompiled+instantiated vs directly flushed)",
         "The same host program is run on two connections (compile/instantiate/commit vs flush with concrete values) and compared at every flush boundary and after close; identical templated rounds with per-round values.",
         "state-vector backend; template values 0..255", "3 C06"),
 "C07": ("exploration", "runtime monitoring: emitted NV sequences executed on the real executor, unitary compared with independent operators; exhaustive over gates x placements x angles",
         "Every accepted gate, placement and (n,d) is transpiled by the real transpiler and executed on the real executor over an independent state-vector backend; the full unitary (electron included) is compared up to global phase; published matrices compared with independent operators; every other sequence is executed as decoded from its bytes.",
         "R-QUANTUM operator definitions", "3 C07"),
 "C08": ("exploration", "runtime monitoring: differential execution vanilla vs NV-transpiled program + structural retarget monitor + electron-control monitor on the transpiled run",
         "SDK-emitted and directly generated vanilla subroutines are run before and after transpilation from the same state with the same measurement script (branches onto gates, bystander and carried-over registers included); every controlled rotation of the transpiled run must be electron-controlled.",
         "state-vector backend; known finding for loaded Q registers", "3 C08"),
 "C09": ("exploration", "runtime monitoring: controller-fault and active-set invariants over random qubit/EPR histories",
         "Random histories of qubit creation, gates, measurement, free, EPR operations and flushes within the budget are run through the pipeline; any controller fault or a mismatch between connection.active_qubits and the unit module is a violation; a quarter of the histories follow an earlier program on the same controller that closed holding qubits.",
         "scripted link layer; SDK build-time refusals are not alarms", "3 C09"),
 "C10": ("exploration", "runtime monitoring: state-vector fidelity with a modelled remote partner over enumerated Bell-state tuples; exact outcome distributions",
         "Pairs 1..4 x all Bell tuples x API variants x hardware configs run through the pipeline; each kept qubit's joint state with its partner must be Phi+, other qubits untouched; measure-directly statistics computed exactly.",
         "link model delivers well-formed responses; known finding for corrections on virtual qubit 0", "3 C10"),
 "C11": ("exploration", "runtime monitoring: recording network stack + uniquely tagged responses, field-by-field comparison",
         "Parameter grid of create/recv calls; the LinkLayerCreate received by a recording stack is compared field by field, converted with request_to_qlink_1_0, and every result handle must read the tagged field of its pair; request sessions with several connections, same-id successors, reused sockets and a renumbered network on one long-lived controller.",
         "responses are well-formed", "3 C11"),
 "C12": ("exploration", "runtime monitoring: systematic exploration of delivery/step interleavings with an R-LINK model and a consume-once history checker",
         "All interleavings of instruction steps and response deliveries of small scenarios (plus random schedules of larger ones) on the real executor; final state compared with a 30-line matching model; online history checker for exactly-once, FIFO, pair->slice; randomly generated scenarios with application stops, unnumbered responses and re-opened sockets.",
         "responses of one key arrive in request/pair order", "3 C12"),
 "C13": ("exploration", "runtime monitoring: invariants at quiescent points over message-level histories (bounded DFS + random walks)",
         "Histories of init/subroutine/stop messages (as bytes) over up to three applications on real QNodeControllers; physical-qubit disjointness, used==mapped, isolation snapshots and clean re-registration checked after every message; early arrivals, an in-flight search alphabet and SDK-level open/close walks.",
         "in-flight pairs are excluded from used==mapped while a response is pending", "3 C13"),
 "C14": ("exploration", "runtime monitoring: register-set balance (icontract snapshot/ensure around each SDK operation) over long operation sequences + end-to-end results",
         "Sequences of hundreds of completed SDK operations with periodic flushes; the active-register set must be unchanged by every completed operation and compilation must keep succeeding; nested programs are executed and compared with direct evaluation; EPR histories incl. contexts, retried fidelity-constrained keeps and Array.undefine.",
         "R-HOST evaluator", "3 C14"),
 "C15": ("exploration", "runtime monitoring: round-trip oracle over all message types with literal expectations",
         "All host and return message types x boundary values in their declared widths x every undefined-pattern up to length 6 and arrays up to 2^20 entries; decoded type and every field compared with the case description.",
         "field values inside declared widths", "3 C15"),
 "C16": ("exploration", "runtime monitoring: out-of-range grid through three routes, oracle = raises or round-trips",
         "Every operand kind in every instruction shape just outside / far outside its range via direct construction, text assembler, late app-id setting, template instantiation and the SDK, with plain and numpy-typed integers, random magnitudes, inside longer programs and in fresh processes with unusual first uses; in-range twins must still encode.",
         "any exception before bytes exist counts as rejection", "3 C16"),
 "C17": ("exploration", "runtime monitoring: print->parse oracle over enumerated classes/fields, incl. print after in-place update",
         "Every class x field position swept; printed text must parse back to an equal instruction; text->binary->text must be a fixed point; parsing is repeated after earlier results were edited in place; user-defined flavours.",
         "operands in range", "3 C17"),
 "C18": ("exploration", "runtime monitoring: controlled thread scheduler (sys.monitoring LINE yield points) exploring schedules, send/recv history checker",
         "Real threads serialised by a scheduler that chooses the interleaving at every statement of the hub/socket code; random and bounded-preemption DFS schedules; per-(direction, socket id) exactly-once in-order history checker; free-running threads with up to 300 000 pending messages.",
         "statement-granularity interleavings, preemption bound", "3 C18"),
 "C19": ("exploration", "runtime monitoring: icontract postcondition on get_angle_spec_from_float with 60-digit arithmetic + SDK route",
         "Hostile angles x tolerances; every step encodable, at most 64 steps, error within tolerance modulo 2pi.",
         "one ulp of the input angle is allowed; known finding for tolerances below 1.87e-7", "3 C19"),
 "C20": ("exploration", "runtime monitoring: toolbox circuits run through the full pipeline on a state-vector backend, compared with ideal operators / projectors; outcome branches enumerated",
         "Toffoli/T-dagger unitaries from all basis inputs, state preparation fidelities, parity measurements for all Pauli strings up to length 3 with exact outcome distributions; multi-application sessions on one long-lived controller with classically predictable results.",
         "R-QUANTUM operators", "3 C20"),
}
CLAIMED = [l.strip() for l in open(os.path.join(ROOT, "tools", "claimed.txt")) if l.strip()]
checks = []
na = []
for p in props:
    pid = p["id"]
    if pid in CLAIMED:
        level, tech, text, note, ref = META[pid]
        checks.append({
            "property_id": pid,
            "quick_cmd": f"./check {pid} --tier quick",
            "thorough_cmd": f"./check {pid} --tier thorough",
            "evidence_file": f"/verif/evidence/{pid}.json",
            "replay_cmd_template": f"./check {pid} --replay {{path}}",
            "engine": "vf",
            "level_claimed": {"category": level, "text": text, "design_ref": f"DESIGN.md section {ref}"},
            "level_note": note,
            "technique": tech,
        })
    else:
        na.append({"property_id": pid, "reason": "check not built yet in this build round (design in DESIGN.md section 3); not claimed until it runs silently on the unchanged tree"})
m = {
    "version": 1,
    "setup_cmd": "/venv/bin/pip install -q --no-index --find-links /opt/veriftools/wheels --target /verif/.deps deal icontract >/dev/null 2>&1; test -d /verif/.deps/icontract",
    "hooks": {"guard": "NETQASM_VERIF",
              "enable": "no source hooks: every monitor is attached from /verif by subclassing documented extension points, wrapping from outside (icontract) or sys.monitoring; checks import the working tree of /repo directly (editable install)",
              "baseline_off_cmd": "cd /repo && /venv/bin/python -m pytest -ra -q -p no:cacheprovider --timeout=900 --continue-on-collection-errors",
              "source_commits": [], "add_only": True},
    "engines": [{"name": "vf", "path": "/verif/vf", "serves_properties": CLAIMED,
                 "kind_free_text": "Python runtime-monitoring framework: reference models (vf/ref), harnesses around the real executor/controller/SDK (vf/harness), generators (vf/gen), one check module per property (vf/checks)"}],
    "checks": checks,
    "not_applicable": na,
    "notes": "VERIF_SEED / VERIF_TIER are honoured; exit 0 held, 1 VIOLATION, 2 INCONCLUSIVE. Known findings: /verif/known_findings.json (keyed by mechanism).",
}
if not na:
    m["not_applicable"] = []
json.dump(m, open(os.path.join(ROOT, "MANIFEST.json"), "w"), indent=1)
print("claimed", len(checks), "not claimed", len(na))
