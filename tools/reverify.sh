#!/bin/bash
# tools/reverify.sh <seeded-dir> : re-run the check recorded in meta.json's detected_by against the change (seed from VERIF_SEED)
d=${1%/}
chk=$(jq -r '.detected_by.check // .property' $d/meta.json)
ver=$(jq -r '.detected_by.verdict // "?"' $d/meta.json)
case "$ver" in caught) ;; *) echo "$d skip ($ver)"; exit 0;; esac
out=$(/verif/tools/with_patch.sh /verif/$d/patch.diff -- /verif/check $chk --tier quick 2>&1); rc=$?
if [ $rc -eq 1 ]; then echo "$d $chk caught"; else echo "$d $chk NOT-CAUGHT rc=$rc"; fi
