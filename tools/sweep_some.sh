#!/bin/bash
# tools/sweep_some.sh <tier> <seed> <check>...   : like sweep.sh for a chosen list of checks
cd "$(dirname "$0")/.."
tier=$1; seed=$2; shift 2
fails=0
for c in "$@"; do
  out=$(VERIF_SEED=$seed ./check $c --tier $tier 2>&1); rc=$?
  if [ $rc -ne 0 ]; then
    fails=$((fails+1)); echo "=== $c seed=$seed tier=$tier rc=$rc"; echo "$out" | grep -v "^KNOWN" | tail -6 | cut -c1-600
    mkdir -p .work/sweep_replays; cp -r replays/$c-* .work/sweep_replays/ 2>/dev/null
  else
    echo "ok $c seed=$seed $(echo "$out" | grep -o 'wall=[0-9.]*s')"
  fi
done
echo "SWEEP DONE tier=$tier seed=$seed failures=$fails"
