#!/usr/bin/env python3
"""Run checks against seeded mutants (scratch copies; /repo is never touched).
usage: tools/mutants.py <dir-with-<id>/patch.diff>... [--checks C01,C02] [--tier quick]
Each mutant dir is either /verif/seeded/<name>/ or /tmp/mut/Cxx/out/<k>/ (property inferred from path or meta.json)."""
import json, os, re, subprocess, sys
args = [a for a in sys.argv[1:] if not a.startswith("--")]
opts = dict(a[2:].split("=", 1) for a in sys.argv[1:] if a.startswith("--") and "=" in a)
tier = opts.get("tier", "quick")
res = []
for d in args:
    d = d.rstrip("/")
    patch = os.path.join(d, "patch.diff")
    if not os.path.exists(patch):
        continue
    if "checks" in opts:
        pids = opts["checks"].split(",")
    elif os.path.exists(os.path.join(d, "meta.json")):
        pids = [json.load(open(os.path.join(d, "meta.json")))["property"]]
    else:
        pids = re.findall(r"C\d\d", d)[:1]
    for pid in pids:
        p = subprocess.run(["/verif/tools/with_patch.sh", patch, "--", "/verif/check", pid, "--tier", tier],
                           capture_output=True, text=True)
        lines = [l for l in p.stdout.splitlines() if l.startswith(("  witness", "INCONCLUSIVE", "PATCH FAILED"))]
        verdict = {0: "MISSED", 1: "caught", 2: "inconclusive", 99: "patch-failed"}.get(p.returncode, f"rc{p.returncode}")
        print(f"{d} {pid}: {verdict}  {lines[0][:200] if lines else ''}")
        if p.returncode not in (0, 1, 2):
            print(p.stdout[-800:], p.stderr[-800:])
        res.append((d, pid, verdict))
missed = [r for r in res if r[2] != "caught"]
print(f"{len(res) - len(missed)}/{len(res)} caught")
