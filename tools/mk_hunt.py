#!/usr/bin/env python3
"""Prepare a hunt round: fresh sub-agents that search the UNMODIFIED tree for genuine violations of a property.
usage: tools/mk_hunt.py /tmp/hunt3 C01 C02 ...   (each agent gets only <root>/<id>/PROMPT.md: property text + own worktree)"""
import json, os, subprocess, sys
root = sys.argv[1]
want = sys.argv[2:]
FOCUS = {"": "", "history": """
**This round concentrates on history-dependent behaviour.** Everything that can be seen on a fresh object in a fresh process
on its first use has been checked many times over. Look for what goes wrong only AFTER something else happened inside the
property's domain: the second or n-th use of the same object (connection, builder, socket, subroutine, instruction, executor,
controller, parser / transpiler / deserializer, flavour, context-manager object); state left behind by an operation that was
refused or raised (and was followed by a valid one); close / reopen, stop / re-register, flush boundaries; another
application, connection, thread, node or flavour active in the same process in between; two calls that should commute;
objects the caller passed in (lists, arrays, instructions) or got back, mutated or reused afterwards; module-level or
class-level state (counters, registries, caches, default arguments) that survives from one use to the next.
"""}
FOCUS["config"] = """
**This round concentrates on non-default configurations and on two features used together.** The default path of every feature
has been checked many times, also over long histories. Look at what changes when something is switched on or combined:
logging and line tracking (LogConfig, log level DEBUG, instruction loggers, comm logs), `return_arrays=False`, the hardware
setting (`set_is_using_hardware`), NV / REIDS compilers with and without matching flavours and hardware configs, `debug=True`
transpilation, non-blocking flush / commit with callbacks, `compile()` + `commit_subroutine` mixed with `flush()`, several
connections / applications / nodes in one process, explicit loop registers, sequential / post-routine / min-fidelity / context
forms of requests, templates inside loops and conditionals, timeouts of 0, ids and sizes at their maxima (app id 65535, socket id
255, 16 registers in use, 255 array entries ...). A combination counts only if each part lies inside the property's domain.
"""
focus = FOCUS[os.environ.get("HUNT_FOCUS", "")]
props = [json.loads(l) for l in open('/verif/properties.jsonl')]
for p in props:
    pid = p['id']
    if want and pid not in want:
        continue
    d = f'{root}/{pid}'
    os.makedirs(d + '/out', exist_ok=True)
    os.makedirs(d + '/work', exist_ok=True)
    if not os.path.exists(d + '/wt'):
        subprocess.run(['git', '-C', '/repo', 'worktree', 'add', '-q', '--detach', d + '/wt', 'HEAD'], check=True)
    a = p['anchors']
    txt = f"""# Task: find inputs for which QuTech-Delft/netqasm, AS IT IS, violates a stated property

You work ONLY inside `{d}`. Your scratch git worktree of the repository is `{d}/wt` (Python package `netqasm`).
Never read or write anything under `/repo` or `/verif`, and do not look for other copies of this task elsewhere on the
machine. There is no network. Do NOT modify the package in the worktree (you may add scratch files under `{d}/work`),
do NOT use `git stash`.

Run Python as `cd {d}/wt && PYTHONPATH={d}/wt /venv/bin/python ...` (check with
`python -c 'import netqasm; print(netqasm.__file__)'`). The existing test suite
(`/venv/bin/python -m pytest -q -p no:cacheprovider --ignore=tests/test_external`) reports `171 passed`.

## The property

**{pid} — {p['title']}**

Statement: {p['statement']}

Quantified over: {p['quantifier']['text']}

Why the existing tests cannot settle it: {p['why_tests_cant']}
(Remarks in that text about current defects may be outdated - several have been repaired. Judge the worktree by running it.)

Code it is anchored in: {', '.join(a['files'])}
Mechanisms: {'; '.join(m['name'] + ' (' + m['where'] + ')' for m in a['mechanism'])}

## What to do

The code has already been compared against independent reference models on many thousands of random programs and on
every instruction with boundary operands, and two earlier rounds of readers like you have found and repaired the obvious
defects. Your job is to find what is STILL wrong: concrete inputs / histories / schedules **inside the quantified
domain** for which the unmodified worktree really violates the statement. Think about: rarely combined options and
entry points (older APIs, keyword options, callback forms, hardware configurations), value classes (negative, zero,
maximal, equal / aliased operands, int subclasses, numpy types, booleans, empty containers), long-lived objects and state
carried from one operation / subroutine / application / connection to the next, re-use of objects the caller still holds,
error paths that leave state behind, and anything the statement promises "for all" that the code only does for the
common case. Read the code, then write small programs that check your suspicion. Build a small independent model or
brute-force search if it helps.
{focus}

For every genuine violation k = 1, 2, ... write into `{d}/out/<k>/`:
* `demo.py` - a small self-contained program that exits non-zero and prints what was expected and what happened
  when run as `cd {d}/wt && PYTHONPATH={d}/wt /venv/bin/python {d}/out/<k>/demo.py` on the UNMODIFIED worktree
  (and would exit 0 if the property held);
* `notes.md` - which sentence of the statement is violated, the input, the mechanism in the code (file, function),
  whether the failure is silent or loud, and a sketch of the smallest repair a maintainer would accept.

Do not report: behaviour outside the quantified domain, loud refusals of invalid input, style issues, or anything
you could not reproduce with a demo. Quality over quantity: at most 4 findings, each with a different mechanism.
If after a serious search you find nothing, say so and list the lines of attack you tried.

Final answer: a short list of the findings (one paragraph each) and of the lines of attack that found nothing.
"""
    open(d + '/PROMPT.md', 'w').write(txt)
    print(d)
