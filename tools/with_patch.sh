#!/bin/bash
# Run a command against a scratch copy of /repo with a patch applied (mutation self-test).
#   tools/with_patch.sh [-R] <patch.diff | commit:<sha>> -- ./check C01
# The copy lives under /tmp/vf-scratch-$$ and is removed afterwards. /repo itself is never touched.
REV=""
if [ "$1" = "-R" ]; then REV="-R"; shift; fi
P="$1"; shift; [ "$1" = "--" ] && shift
S=/tmp/vf-scratch-$$
rm -rf "$S"; mkdir -p "$S"
git -C /repo archive HEAD | tar -x -C "$S"
if [[ "$P" == commit:* ]]; then
  git -C /repo show "${P#commit:}" > "$S/.p.diff"
else
  cp "$P" "$S/.p.diff"
fi
( cd "$S" && git init -q . 2>/dev/null; git -C "$S" apply $REV "$S/.p.diff" ) || { echo "PATCH FAILED"; rm -rf "$S"; exit 99; }
PYTHONPATH="$S" "$@"
rc=$?
rm -rf "$S"
exit $rc
